/* Engine `alloc` (C14): seeded histories of init / init_window / free / fill /
 * touch / reinit against a reference model of the live objects, on a heap that
 * recycles blocks immediately and hands them out dirty.  DESIGN.md, C14. */
#define _GNU_SOURCE
#include "engutil.h"
#include <stdlib.h>
#include <unistd.h>

#define MAXOBJ 2600
typedef struct {
  int used, is_window, parent, nwin;
  int r, c;
  int r0, c0w; /* window placement inside the parent (rows, words) */
  mzd_t *M;
  mzd_t hdr;     /* header fields as they must stay */
  word *shadow;  /* owners: expected content of the whole allocation (rowstride * nrows words) */
} obj_t;
static obj_t objs[MAXOBJ];
static const lib_t *Lb;
static int live_headers, live_owners_with_data;
static size_t E0; /* ledger level with this variant finalised */
static int base64, base4160; /* blocks of header / header-block size that exist before the history starts (code book arrays can have these sizes) */

enum { AV_NONE = 0, AV_NOT_ZERO, AV_OVERLAP, AV_CANARY, AV_HEADER, AV_INVALID_FREE, AV_WINDOW_FREED_DATA, AV_RETAINED, AV_LEAK_AFTER_FINI, AV_MISALIGNED, AV_WINDOW_WRONG, AV_N };
static const char *av_names[AV_N] = { "ok", "fresh_matrix_not_zero", "storage_overlap", "live_matrix_corrupted", "live_header_corrupted", "invalid_or_double_free", "window_free_released_data", "retained_memory_unbounded", "memory_retained_after_fini", "misaligned_storage", "window_not_a_view" };

/* ---- coverage: abstract states and reach probes live in the shared area (survive across forked runs) ---- */
typedef struct {
  uint64_t probes[24];
  uint64_t transitions_seen; /* approximate: counted when (prev,cur) hash bit was unset */
  unsigned char state_bits[4096];      /* 17*17*6*2 = 3468 states */
  unsigned char trans_bits[65536];     /* hashed transitions */
  uint64_t steps, programs;
  uint64_t max_cached_blocks, header_blocks_kept_at_quiescence;
} acov_t;
static acov_t *cov;
enum { P_CACHE_HIT, P_EVICT_17TH, P_BYPASS_BIG, P_EQ_THRESHOLD, P_ZERO_AREA, P_HDR_BLOCK2, P_HDR_BLOCK16, P_HDR_FALLBACK, P_HDR_BLOCK_UNLINK, P_REINIT, P_WINDOW_OF_WINDOW, P_RECYCLED_DIRTY, P_LIVE_1024, P_TOUCH, P_NPROBES };
static const char *p_names[P_NPROBES] = { "exact_size_cache_hit", "seventeenth_block_evicted", "block_above_threshold_bypasses_cache", "block_at_threshold", "zero_area_matrix", "second_header_block", "sixteen_header_blocks", "header_fallback_malloc", "header_block_unlinked", "fini_init_cycle", "window_of_window", "recycled_dirty_block_handed_out", "more_than_1024_live_headers", "arithmetic_touch" };

static int prev_state = -1;
static int count_ledger_size(size_t sz);
static void note_state(void) {
  int slots = 0;
  if (Lb->mmc_cache) for (int i = 0; i < Lb->mmc_nblocks; i++) if (Lb->mmc_cache[i].size) slots++;
  int hb = Lb->mzdcache ? count_ledger_size(sizeof(mzd_t) * 64 + 64) - base4160 : 0;
  if (hb > 16) hb = 16;
  if (hb < 0) hb = 0;
  int bucket = live_headers == 0 ? 0 : live_headers < 64 ? 1 : live_headers == 64 ? 2 : live_headers <= 128 ? 3 : live_headers <= 1024 ? 4 : 5;
  int fb = Lb->mzdcache ? (count_ledger_size(sizeof(mzd_t)) - base64 > 0) : 0;
  int st = ((slots * 17 + hb) * 6 + bucket) * 2 + fb;
  cov->state_bits[st >> 3] |= (unsigned char)(1u << (st & 7));
  if (prev_state >= 0 && prev_state != st) {
    uint32_t h = (uint32_t)(sm64_mix(((uint64_t)prev_state << 20) | (uint64_t)st) & (65536 * 8 - 1));
    if (!(cov->trans_bits[h >> 3] & (1u << (h & 7)))) { cov->trans_bits[h >> 3] |= (unsigned char)(1u << (h & 7)); cov->transitions_seen++; }
  }
  if (hb >= 1) cov->probes[P_HDR_BLOCK2]++;
  if (hb >= 15) cov->probes[P_HDR_BLOCK16]++;
  if (fb) cov->probes[P_HDR_FALLBACK]++;
  if (live_headers > 1024) cov->probes[P_LIVE_1024]++;
  prev_state = st;
}
typedef struct { size_t sz; int n; } cnt_t;
static void cnt_cb(void *p, size_t size, uint32_t id, const void *site, void *ud) { (void)p; (void)id; (void)site; cnt_t *c = (cnt_t *)ud; if (size == c->sz) c->n++; }
static int count_ledger_size(size_t sz) { cnt_t c = { sz, 0 }; heap_iter_live(cnt_cb, &c); return c.n; }

/* ---- model checks ---- */
static size_t owner_words(const obj_t *o) { return (size_t)o->M->nrows * (size_t)o->M->rowstride; }
static int viol, viol_step, viol_obj;
static char viol_note[160];
static void flag(int v, int step, int obj, const char *note) {
  if (viol) return;
  viol = v; viol_step = step; viol_obj = obj;
  snprintf(viol_note, sizeof viol_note, "%s", note ? note : "");
}
static int ranges_overlap(const void *a, size_t an, const void *b, size_t bn) {
  uintptr_t x = (uintptr_t)a, y = (uintptr_t)b;
  return an && bn && x < y + bn && y < x + an;
}
static void check_new_owner(int id, int step) {
  obj_t *o = &objs[id];
  mzd_t *M = o->M;
  if (M->nrows != o->r || M->ncols != o->c) flag(AV_HEADER, step, id, "dimensions of fresh matrix");
  if (o->r && o->c) {
    if (!M->data) { flag(AV_HEADER, step, id, "no data"); return; }
    size_t n = owner_words(o);
    for (size_t i = 0; i < n; i++)
      if (M->data[i]) { char b[96]; snprintf(b, sizeof b, "word %zu of %zu is %016llx", i, n, (unsigned long long)M->data[i]); flag(AV_NOT_ZERO, step, id, b); break; }
    if (Lb->sse2 && ((uintptr_t)M->data & 15)) flag(AV_MISALIGNED, step, id, "data not 16-byte aligned");
  }
  /* disjoint from every other live object's data and header */
  size_t nb = (o->r && o->c) ? owner_words(o) * 8 : 0;
  for (int k = 0; k < MAXOBJ; k++) {
    obj_t *q = &objs[k];
    if (!q->used || k == id) continue;
    if (ranges_overlap(M, 64, q->M, 64)) flag(AV_OVERLAP, step, id, "header shares storage with a live header");
    if (!q->is_window && q->r && q->c) {
      size_t qb = owner_words(q) * 8;
      if (nb && ranges_overlap(M->data, nb, q->M->data, qb)) flag(AV_OVERLAP, step, id, "data shares storage with a live matrix");
      if (ranges_overlap(M, 64, q->M->data, qb)) flag(AV_OVERLAP, step, id, "header inside a live matrix");
    }
    if (nb && ranges_overlap(M->data, nb, q->M, 64)) flag(AV_OVERLAP, step, id, "data overlaps a live header");
  }
}
static void check_all(int step, int full) {
  for (int k = 0; k < MAXOBJ && !viol; k++) {
    obj_t *o = &objs[k];
    if (!o->used) continue;
    mzd_t *M = o->M;
    if (M->nrows != o->hdr.nrows || M->ncols != o->hdr.ncols || M->width != o->hdr.width || M->rowstride != o->hdr.rowstride ||
        M->flags != o->hdr.flags || M->high_bitmask != o->hdr.high_bitmask || M->data != o->hdr.data) { flag(AV_HEADER, step, k, "header fields changed"); break; }
    if (full && !o->is_window && o->r && o->c) {
      if (memcmp(M->data, o->shadow, owner_words(o) * 8)) { flag(AV_CANARY, step, k, "content differs from the model"); break; }
    }
  }
}
static void check_some(rng_t *r, int step) { /* content of a few random live owners + the full header scan */
  check_all(step, 0);
  for (int t = 0; t < 6 && !viol; t++) {
    int k = (int)rng_below(r, MAXOBJ);
    for (int z = 0; z < 40 && !objs[k].used; z++) k = (k + 1) % MAXOBJ;
    obj_t *o = &objs[k];
    if (!o->used || o->is_window || !o->r || !o->c) continue;
    if (memcmp(o->M->data, o->shadow, owner_words(o) * 8)) flag(AV_CANARY, step, k, "content differs from the model");
  }
}
static void ledger_check(int step) {
  heap_viol_t hv = heap_take_violation();
  if (hv.kind != HV_NONE) flag(AV_INVALID_FREE, step, -1, hv.kind == HV_DOUBLE_FREE ? "double free" : "free of a pointer the library never allocated");
}

/* ---- operations ---- */
static void do_init(int id, int r, int c, int step) {
  obj_t *o = &objs[id];
  uint64_t rec0 = heap_stats.recycled_hits;
  o->M = Lb->mzd_init(r, c);
  o->used = 1; o->is_window = 0; o->parent = -1; o->nwin = 0; o->r = r; o->c = c;
  live_headers++;
  if (r && c) live_owners_with_data++; else cov->probes[P_ZERO_AREA]++;
  if (heap_stats.recycled_hits != rec0) cov->probes[P_RECYCLED_DIRTY]++;
  check_new_owner(id, step);
  o->hdr = *o->M;
  if (r && c && !viol) { o->shadow = (word *)calloc(owner_words(o), 8); }
}
static void do_window(int id, int par, int r0, int c0w, int r1, int c1, int step) {
  obj_t *o = &objs[id], *p = &objs[par];
  o->M = Lb->mzd_init_window(p->M, r0, c0w * 64, r1, c1);
  o->used = 1; o->is_window = 1; o->parent = par; o->nwin = 0; o->r = r1 - r0; o->c = c1 - c0w * 64; o->r0 = r0; o->c0w = c0w;
  p->nwin++;
  live_headers++;
  if (p->is_window) cov->probes[P_WINDOW_OF_WINDOW]++;
  mzd_t *W = o->M;
  if (W->nrows != o->r || W->ncols != o->c || W->rowstride != p->M->rowstride) flag(AV_WINDOW_WRONG, step, id, "window geometry");
  if (p->M->data && W->data != p->M->data + (size_t)r0 * (size_t)p->M->rowstride + (size_t)c0w) flag(AV_WINDOW_WRONG, step, id, "window does not point into its parent");
  for (int k = 0; k < MAXOBJ; k++) {
    obj_t *q = &objs[k];
    if (!q->used || k == id) continue;
    if (ranges_overlap(W, 64, q->M, 64)) flag(AV_OVERLAP, step, id, "header shares storage with a live header");
    if (!q->is_window && q->r && q->c && ranges_overlap(W, 64, q->M->data, owner_words(q) * 8)) flag(AV_OVERLAP, step, id, "header inside a live matrix");
  }
  o->hdr = *W;
}
static int root_of(int id) { while (objs[id].is_window) id = objs[id].parent; return id; }
static void do_free(int id, int step) {
  obj_t *o = &objs[id];
  size_t live_before = heap_live_count();
  int root = root_of(id);
  word *pdata = objs[root].M->data;
  int hb_before = Lb->mzdcache ? count_ledger_size(sizeof(mzd_t) * 64 + 64) : 0;
  Lb->mzd_free(o->M);
  if (o->is_window) {
    objs[o->parent].nwin--;
    if (pdata && !heap_is_live(pdata)) flag(AV_WINDOW_FREED_DATA, step, id, "freeing a window released its parent's storage");
    (void)live_before;
  } else {
    if (o->r && o->c) live_owners_with_data--;
    free(o->shadow); o->shadow = NULL;
  }
  if (Lb->mzdcache && count_ledger_size(sizeof(mzd_t) * 64 + 64) < hb_before) cov->probes[P_HDR_BLOCK_UNLINK]++;
  live_headers--;
  o->used = 0; o->M = NULL;
  ledger_check(step);
}
static void do_fill(int id, uint64_t seed) { /* write a seeded pattern through the object; the model mirrors exactly the bits inside its columns */
  obj_t *o = &objs[id];
  if (!o->r || !o->c) return;
  gen_fill(o->M, "rand", 128, seed);
  int root = root_of(id);
  obj_t *R = &objs[root];
  /* placement of this view inside the root */
  int roff = 0, woff = 0;
  for (int k = id; objs[k].is_window; k = objs[k].parent) { roff += objs[k].r0; woff += objs[k].c0w; }
  for (int i = 0; i < o->M->nrows; i++) {
    const word *src = mzd_row_const(o->M, i);
    word *dst = R->shadow + (size_t)(roff + i) * (size_t)R->M->rowstride + (size_t)woff;
    for (int j = 0; j < o->M->width - 1; j++) dst[j] = src[j];
    int j = o->M->width - 1;
    dst[j] = (dst[j] & ~o->M->high_bitmask) | (src[j] & o->M->high_bitmask);
  }
}
static void do_touch(int kind, int dim, uint64_t seed) {
  cov->probes[P_TOUCH]++;
  mzd_t *A = Lb->mzd_init(dim, dim + 3), *B = Lb->mzd_init(dim + 3, dim);
  gen_fill(A, "rand", 128, seed); gen_fill(B, "rand", 128, seed + 1);
  switch (kind % 4) {
  case 0: { mzd_t *C = Lb->mzd_mul_m4rm(NULL, A, B, 0); Lb->mzd_free(C); break; }
  case 1: Lb->mzd_echelonize_m4ri(A, 1, 0); break;
  case 2: { mzp_t *P = Lb->mzp_init(A->nrows), *Q = Lb->mzp_init(A->ncols); Lb->mzd_pluq(A, P, Q, 0); Lb->mzp_free(P); Lb->mzp_free(Q); break; }
  default: { mzd_t *T = Lb->mzd_transpose(NULL, A); mzd_t *C = Lb->mzd_mul(NULL, A, B, 0); Lb->mzd_free(T); if (C) Lb->mzd_free(C); break; }
  }
  Lb->mzd_free(A); Lb->mzd_free(B);
}
static void drain(int step, int final_fini) {
  for (int pass = 0; pass < 40; pass++) { /* windows before their parents */
    int any = 0;
    for (int k = 0; k < MAXOBJ; k++) if (objs[k].used && objs[k].nwin == 0) { do_free(k, step); any = 1; }
    if (!any) break;
  }
  if (viol) return;
  /* quiescent: only cached blocks (<=16) and header blocks without live header may remain -> none for headers */
  size_t lv = heap_live_count();
  size_t base = E0 + 0; /* plus this variant's code book blocks, measured below */
  (void)base;
  Lb->m4ri_mmc_cleanup();
  size_t lv2 = heap_live_count();
  /* (data blocks of the same sizes may sit in the block cache, hence after the cleanup) */
  /* What the library keeps for re-use while it is initialised (cached blocks, empty header blocks) is its own business: the property
     only speaks of the state after finalisation.  The pinned tree keeps at most 16 blocks and no empty header block; that is recorded
     as a measurement, not demanded. */
  if (lv - lv2 > 16) cov->max_cached_blocks++; /* number of quiescent states with more than 16 blocks kept */
  if (Lb->mzdcache && (count_ledger_size(sizeof(mzd_t) * 64 + 64) != base4160 || count_ledger_size(sizeof(mzd_t)) != base64)) cov->header_blocks_kept_at_quiescence++;
  if (final_fini) {
    Lb->m4ri_fini();
    if (heap_live_count() != E0) { char b[96]; snprintf(b, sizeof b, "%zu library blocks live after m4ri_fini(), %zu expected", heap_live_count(), E0); flag(AV_LEAK_AFTER_FINI, step, -1, b); }
    Lb->m4ri_init();
  }
  ledger_check(step);
}

/* ---- program execution ---- */
typedef struct { const char *text; } runarg_t;
static void child_run(void *ud) {
  runarg_t *a = (runarg_t *)ud;
  cov = (acov_t *)SIM_SHARED_EXT;
  Lb = m4sim_libs[0];
  const char *p = a->text;
  char line[256];
  int step = 0;
  rng_t chk = rng_make(12345);
  int started = 0;
  memset(objs, 0, sizeof objs);
  while (*p && !viol) {
    const char *e = strchr(p, '\n');
    size_t len = e ? (size_t)(e - p) : strlen(p);
    if (len >= sizeof line) len = sizeof line - 1;
    memcpy(line, p, len); line[len] = 0;
    p = e ? e + 1 : p + len;
    if (line[0] == '#' || !line[0]) continue;
    char w0[32] = "";
    long x[6] = { 0 };
    unsigned long long s = 0;
    sscanf(line, "%31s", w0);
    if (!strcmp(w0, "lib")) { char nm[32]; sscanf(line, "lib %31s", nm); const lib_t *l = lib_by_name(nm); if (l) Lb = l; continue; }
    if (!strcmp(w0, "world")) { /* world fill recycle l3 seed */
      long fk = 0, rc = 0, l3 = 0;
      sscanf(line, "world %ld %ld %ld %llu", &fk, &rc, &l3, &s);
      heap_config(s, (int)fk, (int)rc, 0);
      if (l3 >= 65536) { m4sim_l3 = (int)l3; if (m4sim_l2 > m4sim_l3) m4sim_l2 = m4sim_l3; if (m4sim_l1 > m4sim_l2) m4sim_l1 = m4sim_l2; }
      continue;
    }
    if (!started) { /* measure the ledger level with this variant finalised */
      started = 1;
      Lb->m4ri_mmc_cleanup();
      Lb->m4ri_fini();
      E0 = heap_live_count();
      Lb->m4ri_init();
      base64 = count_ledger_size(sizeof(mzd_t));
      base4160 = count_ledger_size(sizeof(mzd_t) * 64 + 64);
      chk = rng_make(fnv1a(a->text, strlen(a->text), FNV0));
      cov->programs++;
    }
    step++;
    cov->steps++;
    if (!strcmp(w0, "init")) {
      if (sscanf(line, "init %ld %ld %ld", &x[0], &x[1], &x[2]) != 3 || x[0] < 0 || x[0] >= MAXOBJ || objs[x[0]].used || x[1] < 0 || x[2] < 0) { sim_shared->aux[1] = 1; snprintf(sim_shared->note, sizeof sim_shared->note, "invalid line at step %d: %.100s", step, line); return; }
      size_t live0 = heap_live_count();
      size_t bytes = (size_t)x[1] * (size_t)((((x[2] + 63) / 64) + 1) & ~1L) * 8;
      do_init((int)x[0], (int)x[1], (int)x[2], step);
      if (Lb->mmc && bytes && heap_live_count() == live0) cov->probes[P_CACHE_HIT]++;
      if (bytes == (size_t)m4sim_l3) cov->probes[P_EQ_THRESHOLD]++;
    } else if (!strcmp(w0, "window")) {
      if (sscanf(line, "window %ld %ld %ld %ld %ld %ld", &x[0], &x[1], &x[2], &x[3], &x[4], &x[5]) != 6) { sim_shared->aux[1] = 1; snprintf(sim_shared->note, sizeof sim_shared->note, "invalid line at step %d: %.100s", step, line); return; }
      if (x[0] < 0 || x[0] >= MAXOBJ || objs[x[0]].used || x[1] < 0 || x[1] >= MAXOBJ || !objs[x[1]].used) { sim_shared->aux[1] = 1; snprintf(sim_shared->note, sizeof sim_shared->note, "invalid line at step %d: %.100s", step, line); return; }
      obj_t *pp = &objs[x[1]];
      if (x[2] < 0 || x[4] < x[2] || x[4] > pp->r || x[3] < 0 || x[3] * 64 > pp->c || x[5] < x[3] * 64 || x[5] > pp->c) { sim_shared->aux[1] = 1; snprintf(sim_shared->note, sizeof sim_shared->note, "invalid line at step %d: %.100s", step, line); return; }
      do_window((int)x[0], (int)x[1], (int)x[2], (int)x[3], (int)x[4], (int)x[5], step);
    } else if (!strcmp(w0, "free")) {
      if (sscanf(line, "free %ld", &x[0]) != 1 || x[0] < 0 || x[0] >= MAXOBJ || !objs[x[0]].used || objs[x[0]].nwin) { sim_shared->aux[1] = 1; snprintf(sim_shared->note, sizeof sim_shared->note, "invalid line at step %d: %.100s", step, line); return; }
      size_t live0 = heap_live_count();
      int owner_big = !objs[x[0]].is_window && objs[x[0]].r && objs[x[0]].c;
      size_t bytes = owner_big ? owner_words(&objs[x[0]]) * 8 : 0;
      int slots = 0;
      if (Lb->mmc_cache) for (int i = 0; i < Lb->mmc_nblocks; i++) if (Lb->mmc_cache[i].size) slots++;
      do_free((int)x[0], step);
      if (Lb->mmc && owner_big) {
        if (bytes >= (size_t)m4sim_l3 && heap_live_count() < live0) cov->probes[P_BYPASS_BIG]++;
        if (bytes < (size_t)m4sim_l3 && Lb->mmc_nblocks && slots == Lb->mmc_nblocks) cov->probes[P_EVICT_17TH]++;
      }
    } else if (!strcmp(w0, "fill")) {
      if (sscanf(line, "fill %ld %llu", &x[0], &s) != 2 || x[0] < 0 || x[0] >= MAXOBJ || !objs[x[0]].used) { sim_shared->aux[1] = 1; snprintf(sim_shared->note, sizeof sim_shared->note, "invalid line at step %d: %.100s", step, line); return; }
      do_fill((int)x[0], s);
    } else if (!strcmp(w0, "touch")) {
      if (sscanf(line, "touch %ld %ld %llu", &x[0], &x[1], &s) != 3 || x[1] < 1 || x[1] > 400) { sim_shared->aux[1] = 1; snprintf(sim_shared->note, sizeof sim_shared->note, "invalid line at step %d: %.100s", step, line); return; }
      do_touch((int)x[0], (int)x[1], s);
      ledger_check(step);
    } else if (!strcmp(w0, "reinit")) {
      if (live_headers) { sim_shared->aux[1] = 1; snprintf(sim_shared->note, sizeof sim_shared->note, "invalid line at step %d: %.100s", step, line); return; }
      cov->probes[P_REINIT]++;
      drain(step, 1);
    } else if (!strcmp(w0, "drain")) {
      drain(step, 0);
    } else { sim_shared->aux[1] = 1; snprintf(sim_shared->note, sizeof sim_shared->note, "invalid line at step %d: %.100s", step, line); return; }
    if (!viol) { if ((step & 63) == 0) check_all(step, 1); else check_some(&chk, step); }
    note_state();
    simlog_u64((uint64_t)heap_live_count() * 131 + (uint64_t)live_headers);
  }
  if (!viol) { check_all(step, 1); }
  if (!viol) drain(step + 1, 1);
  sim_shared->aux[2] = step;
  sim_shared->aux[3] = viol;
  sim_shared->aux[4] = viol_step;
  sim_shared->aux[5] = viol_obj;
  snprintf(sim_shared->note, sizeof sim_shared->note, "%s", viol_note);
  sim_shared->result_hash = simlog_hash;
  sim_shared->completed = 1;
}

/* ---- generator ---- */
typedef struct { int used, is_window, nwin, r, c, parent; } gobj_t;
static gobj_t gm[MAXOBJ];
static int g_live;
static int g_pick_free_slot(rng_t *r) { for (int t = 0; t < 50; t++) { int k = (int)rng_below(r, MAXOBJ); if (!gm[k].used) return k; } for (int k = 0; k < MAXOBJ; k++) if (!gm[k].used) return k; return -1; }
static int g_pick_live(rng_t *r, int need_nowin, int need_area) {
  for (int t = 0; t < 200; t++) {
    int k = (int)rng_below(r, MAXOBJ);
    for (int z = 0; z < 30 && !gm[k].used; z++) k = (k + 1) % MAXOBJ;
    if (!gm[k].used) continue;
    if (need_nowin && gm[k].nwin) continue;
    if (need_area && (!gm[k].r || !gm[k].c)) continue;
    return k;
  }
  return -1;
}
static void g_init(rng_t *r, sbuf_t *o, int rr, int cc) { int k = g_pick_free_slot(r); if (k < 0) return; gm[k] = (gobj_t){ 1, 0, 0, rr, cc, -1 }; g_live++; sb_printf(o, "init %d %d %d\n", k, rr, cc); if (rng_chance(r, 2, 3)) sb_printf(o, "fill %d %llu\n", k, (unsigned long long)(rng_u64(r) >> 1)); }
static void g_window(rng_t *r, sbuf_t *o) {
  int p = g_pick_live(r, 0, 1), k = g_pick_free_slot(r);
  if (p < 0 || k < 0) return;
  int r0 = (int)rng_below(r, (uint64_t)gm[p].r), r1 = r0 + 1 + (int)rng_below(r, (uint64_t)(gm[p].r - r0));
  int c0w = (int)rng_below(r, (uint64_t)((gm[p].c + 63) / 64));
  int c1 = c0w * 64 + 1 + (int)rng_below(r, (uint64_t)(gm[p].c - c0w * 64));
  gm[k] = (gobj_t){ 1, 1, 0, r1 - r0, c1 - c0w * 64, p };
  gm[p].nwin++; g_live++;
  sb_printf(o, "window %d %d %d %d %d %d\n", k, p, r0, c0w, r1, c1);
  if (rng_chance(r, 1, 5)) sb_printf(o, "fill %d %llu\n", k, (unsigned long long)(rng_u64(r) >> 1));
}
static void g_free(rng_t *r, sbuf_t *o) {
  int k = g_pick_live(r, 1, 0);
  if (k < 0) return;
  if (gm[k].is_window) gm[gm[k].parent].nwin--;
  gm[k].used = 0; g_live--;
  sb_printf(o, "free %d\n", k);
}
static void g_drain(sbuf_t *o) { sb_printf(o, "drain\n"); memset(gm, 0, sizeof gm); g_live = 0; }

static void gen_program(uint64_t rseed, uint64_t idx, const char *tier, sbuf_t *o) {
  rng_t root = rng_make(rseed);
  rng_t r = rng_split(&root, "gen");
  const lib_t *L = m4sim_libs[idx % (uint64_t)m4sim_nlibs];
  memset(gm, 0, sizeof gm); g_live = 0;
  long l3s[] = { 65536, 131072, 262144, 1048576, 56623104 };
  long l3 = l3s[rng_below(&r, 5)];
  sb_printf(o, "# m4sim engine=alloc scenario=history lib=%s\nlib %s\n", L->name, L->name);
  sb_printf(o, "world %d %d %ld %llu\n", (int)rng_below(&r, FILL_NKINDS), 1 + (int)rng_below(&r, 3), l3, (unsigned long long)(rng_u64(&r) >> 1));
  int thorough = !strcmp(tier, "thorough");
  int nph = 1 + (int)rng_below(&r, thorough ? 6 : 4);
  int pool_r[6], pool_c[6];
  for (int i = 0; i < 6; i++) { pool_r[i] = 1 + (int)rng_below(&r, 60); pool_c[i] = 1 + (int)rng_below(&r, 400); }
  for (int ph = 0; ph < nph; ph++) {
    int kind = (int)rng_below(&r, 9);
    int n = 10 + (int)rng_below(&r, thorough ? 200 : 90);
    switch (kind) {
    case 0: /* churn over a small pool of sizes: exact-size cache hits */
      for (int i = 0; i < n; i++) {
        if (g_live > 12 || (g_live && rng_chance(&r, 1, 2))) g_free(&r, o);
        else { int z = (int)rng_below(&r, 6); g_init(&r, o, pool_r[z], pool_c[z]); }
        if (rng_chance(&r, 1, 8)) g_window(&r, o);
      }
      break;
    case 1: { /* >= 17 distinct sizes created, then freed in random order: eviction, round robin index wrap */
      int m = 17 + (int)rng_below(&r, 30);
      for (int i = 0; i < m; i++) g_init(&r, o, 1 + i + (int)rng_below(&r, 3), 10 + i * 7);
      for (int i = 0; i < m + 5; i++) g_free(&r, o);
      for (int i = 0; i < 8; i++) g_init(&r, o, 1 + (int)rng_below(&r, 40), 10 + (int)rng_below(&r, 300));
      break;
    }
    case 2: { /* sizes just below / at / above the block cache threshold (L3 knob) */
      if (l3 > 1048576) { for (int i = 0; i < 6; i++) g_init(&r, o, 1 + (int)rng_below(&r, 50), 1 + (int)rng_below(&r, 500)); break; }
      for (int i = 0; i < 6; i++) {
        int words_per_row = 16; /* 1024 columns: rowstride 16 words = 128 bytes */
        long rows = l3 / 128 + (long)rng_below(&r, 3) - 1;
        if (rows < 1) rows = 1;
        g_init(&r, o, (int)rows, words_per_row * 64 - (int)rng_below(&r, 60));
        if (rng_chance(&r, 2, 3)) g_free(&r, o);
      }
      break;
    }
    case 3: case 4: { /* ramp the number of live headers across 64 / 128 / (1024) and back down in random order */
      int target = rng_chance(&r, 1, 4) ? (thorough || rng_chance(&r, 1, 3) ? 1040 + (int)rng_below(&r, 60) : 200) : rng_chance(&r, 1, 2) ? 60 + (int)rng_below(&r, 12) : 120 + (int)rng_below(&r, 20);
      if (!g_live) g_init(&r, o, 8, 200);
      while (g_live < target) { if (rng_chance(&r, 1, 12)) g_init(&r, o, 1 + (int)rng_below(&r, 4), 1 + (int)rng_below(&r, 130)); else g_window(&r, o); if (g_live >= MAXOBJ - 10) break; }
      int down = (int)rng_below(&r, (uint64_t)g_live + 1);
      for (int i = 0; i < down; i++) g_free(&r, o);
      for (int i = 0; i < 20; i++) { if (rng_chance(&r, 1, 2)) g_window(&r, o); else g_free(&r, o); }
      break;
    }
    case 5: /* zero-area matrices and tiny ones */
      for (int i = 0; i < n / 3; i++) { int z = (int)rng_below(&r, 3); g_init(&r, o, z == 0 ? 0 : 1 + (int)rng_below(&r, 5), z == 1 ? 0 : 1 + (int)rng_below(&r, 70)); if (rng_chance(&r, 1, 2)) g_free(&r, o); }
      break;
    case 6: /* arithmetic between allocations: temporaries come and go through the same caches */
      for (int i = 0; i < n / 4; i++) {
        sb_printf(o, "touch %d %d %llu\n", (int)rng_below(&r, 4), 1 + (int)rng_below(&r, 150), (unsigned long long)(rng_u64(&r) >> 1));
        if (rng_chance(&r, 1, 2)) g_init(&r, o, 1 + (int)rng_below(&r, 60), 1 + (int)rng_below(&r, 300)); else g_free(&r, o);
      }
      break;
    case 7: { /* header blocks are filled in creation order: empty one whole block (first heap block, a middle one, the last), while it is or is not the block new headers come from */
      g_drain(o);
      int j = 2 + (int)rng_below(&r, 4);          /* number of 64-header blocks to fill */
      int total = 64 * j - (int)rng_below(&r, 2) * (int)rng_below(&r, 5); /* exactly full, or a few short */
      int order[400], no = 0;
      int base = g_pick_free_slot(&r);
      gm[base] = (gobj_t){ 1, 0, 0, 8, 130, -1 }; g_live++;
      sb_printf(o, "init %d 8 130\n", base);
      order[no++] = base;
      while (no < total && no < 400) {
        int k = g_pick_free_slot(&r);
        int wr0 = (int)rng_below(&r, 4), wr1 = 4 + (int)rng_below(&r, 4);
        gm[k] = (gobj_t){ 1, 1, 0, wr1 - wr0, 64, base }; gm[base].nwin++; g_live++;
        sb_printf(o, "window %d %d %d 0 %d 64\n", k, base, wr0, wr1);
        order[no++] = k;
      }
      int b = 1 + (int)rng_below(&r, (uint64_t)(j - 1)); /* which block to empty: 1..j-1 (0 is the static one, holds the base matrix) */
      int lo = 64 * b, hi = lo + 64 > no ? no : lo + 64;
      if (rng_chance(&r, 2, 3) && hi > lo) { /* make that block the one new headers come from: free one of its slots, allocate again */
        int v = lo + (int)rng_below(&r, (uint64_t)(hi - lo));
        sb_printf(o, "free %d\n", order[v]); gm[order[v]].used = 0; gm[base].nwin--; g_live--;
        int k = g_pick_free_slot(&r);
        gm[k] = (gobj_t){ 1, 1, 0, 4, 64, base }; gm[base].nwin++; g_live++;
        sb_printf(o, "window %d %d 0 0 4 64\n", k, base);
        order[v] = k;
      }
      /* free the whole block in a seeded order */
      int idx[64], ni = 0;
      for (int q = lo; q < hi; q++) idx[ni++] = q;
      for (int q = ni - 1; q > 0; q--) { int z = (int)rng_below(&r, (uint64_t)q + 1); int t = idx[q]; idx[q] = idx[z]; idx[z] = t; }
      int keep = rng_chance(&r, 1, 4) ? 1 : 0; /* sometimes leave one header: the block must then stay */
      for (int q = 0; q < ni - keep; q++) { sb_printf(o, "free %d\n", order[idx[q]]); gm[order[idx[q]]].used = 0; gm[base].nwin--; g_live--; }
      /* and carry on allocating */
      int more = 1 + (int)rng_below(&r, 70);
      for (int q = 0; q < more; q++) g_window(&r, o);
      for (int q = 0; q < 20; q++) { if (rng_chance(&r, 1, 2)) g_window(&r, o); else g_free(&r, o); }
      break;
    }
    default: /* everything freed, library finalised and initialised again */
      g_drain(o);
      sb_printf(o, "reinit\n");
      break;
    }
  }
}

static int cmd_worker(int argc, char **argv) {
  if (argc < 7) return 2;
  uint64_t seed = strtoull(argv[2], NULL, 10), first = strtoull(argv[3], NULL, 10), count = strtoull(argv[4], NULL, 10);
  const char *tier = argv[5], *outdir = argv[6];
  double budget = argc > 7 ? atof(argv[7]) : 1e9, t0 = eng_now();
  char errpath[512], cur[512];
  snprintf(errpath, sizeof errpath, "%s/stderr-%llu.txt", outdir, (unsigned long long)first);
  snprintf(cur, sizeof cur, "%s/cur-%llu.prog", outdir, (unsigned long long)first);
  sbuf_t sb = { 0 };
  cov = (acov_t *)SIM_SHARED_EXT;
  for (uint64_t idx = first; idx < first + count; idx++) {
    if (eng_now() - t0 > budget) { printf("B idx=%llu budget exhausted\n", (unsigned long long)idx); break; }
    sb_reset(&sb);
    gen_program(eng_run_seed(seed, "alloc", idx), idx, tier, &sb);
    eng_write_file(cur, sb.s);
    runarg_t a = { sb.s };
    child_res_t cr;
    eng_fork_run(child_run, &a, errpath, 30, &cr);
    const char *cls = "ok";
    int v = (int)sim_shared->aux[3];
    if (sim_shared->aux[1]) cls = "SKIPPED";
    else if (cr.fate != FATE_EXIT0) cls = fate_names[cr.fate];
    else if (!sim_shared->completed) cls = "incomplete";
    else if (v) cls = av_names[v];
    if (strcmp(cls, "ok") && strcmp(cls, "SKIPPED")) {
      char fn[512], buf[300];
      snprintf(fn, sizeof fn, "%s/viol-%llu.prog", outdir, (unsigned long long)idx);
      eng_write_file(fn, sb.s);
      eng_first_line_matching(errpath, "rror", buf, sizeof buf);
      printf("V idx=%llu prop=C14 class=%s scen=history step=%ld file=%s detail=%s %s\n", (unsigned long long)idx, cls, (long)sim_shared->aux[4], fn, sim_shared->note, buf);
    }
    if (!strcmp(cls, "SKIPPED")) printf("K idx=%llu %s\n", (unsigned long long)idx, sim_shared->note);
    printf("R idx=%llu class=%s steps=%ld hash=%016llx\n", (unsigned long long)idx, cls, (long)sim_shared->aux[2], (unsigned long long)sim_shared->result_hash);
    fflush(stdout);
  }
  int states = 0;
  for (int i = 0; i < 4096 * 8; i++) if (cov->state_bits[i >> 3] & (1u << (i & 7))) states++;
  printf("T forks=%llu states=%d transitions=%llu steps=%llu", (unsigned long long)eng_forks, states, (unsigned long long)cov->transitions_seen, (unsigned long long)cov->steps);
  for (int i = 0; i < P_NPROBES; i++) printf(" p.%s=%llu", p_names[i], (unsigned long long)cov->probes[i]);
  printf(" p.quiescent_states_with_more_than_16_blocks_kept=%llu p.quiescent_states_with_header_blocks_kept=%llu", (unsigned long long)cov->max_cached_blocks, (unsigned long long)cov->header_blocks_kept_at_quiescence);
  printf("\n");
  /* state bitmap, so the driver can union across workers */
  printf("M ");
  for (int i = 0; i < 3468 / 8 + 1; i++) printf("%02x", cov->state_bits[i]);
  printf("\n");
  return 0;
}

static int cmd_exec(int argc, char **argv) {
  if (argc < 3) return 2;
  char *text = eng_read_file(argv[2], NULL);
  if (!text) return 2;
  char errpath[512];
  snprintf(errpath, sizeof errpath, "%s.stderr", argv[2]);
  runarg_t a = { text };
  child_res_t cr;
  cov = (acov_t *)SIM_SHARED_EXT;
  eng_fork_run(child_run, &a, errpath, 30, &cr);
  const char *cls = "ok";
  int v = (int)sim_shared->aux[3];
  if (sim_shared->aux[1]) cls = "SKIPPED";
  else if (cr.fate != FATE_EXIT0) cls = fate_names[cr.fate];
  else if (!sim_shared->completed) cls = "incomplete";
  else if (v) cls = av_names[v];
  char buf[300];
  eng_first_line_matching(errpath, "rror", buf, sizeof buf);
  printf("X class=%s fate=%s step=%ld obj=%ld hash=%016llx detail=%s %s\n", cls, fate_names[cr.fate], (long)sim_shared->aux[4], (long)sim_shared->aux[5], (unsigned long long)sim_shared->result_hash, sim_shared->note, buf);
  if (!getenv("M4SIM_KEEP_STDERR")) unlink(errpath);
  return 0;
}

int main(int argc, char **argv) {
  setvbuf(stdout, NULL, _IOLBF, 0);
  sim_shared_init();
  if (argc >= 2 && !strcmp(argv[1], "worker")) return cmd_worker(argc, argv);
  if (argc >= 2 && !strcmp(argv[1], "exec")) return cmd_exec(argc, argv);
  return 2;
}
