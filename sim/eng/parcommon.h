/* Helpers shared by the `omp` and `thr` engines: schedule configuration as program text, race reporting. */
#ifndef M4SIM_PARCOMMON_H
#define M4SIM_PARCOMMON_H
#include "../core/sched.h"
#include "engutil.h"
#include <stdlib.h>

/* "schedcfg mode=1 seed=S logp=a,f,h,r,c d=D team=N dyn=0 nested=0 critoff=0 budget=B" */
static void par_emit_cfg(sbuf_t *o, const sched_cfg_t *c) {
  sb_printf(o, "schedcfg mode=%d seed=%llu logp=%d,%d,%d,%d,%d d=%d team=%d dyn=%d nested=%d critoff=%d\n", c->mode, (unsigned long long)c->seed,
            c->logp[0], c->logp[1], c->logp[2], c->logp[3], c->logp[4], c->pct_d, c->team_size, c->dynamic_team, c->nested, c->critical_off);
}
static int par_parse_cfg(const char *line, sched_cfg_t *c) {
  memset(c, 0, sizeof *c);
  unsigned long long s = 0;
  int n = sscanf(line, "schedcfg mode=%d seed=%llu logp=%d,%d,%d,%d,%d d=%d team=%d dyn=%d nested=%d critoff=%d", &c->mode, &s, &c->logp[0], &c->logp[1], &c->logp[2],
                 &c->logp[3], &c->logp[4], &c->pct_d, &c->team_size, &c->dynamic_team, &c->nested, &c->critical_off);
  c->seed = s;
  c->monitor = 1;
  return n == 12;
}
static void par_random_cfg(rng_t *r, sched_cfg_t *c, int max_team) {
  memset(c, 0, sizeof *c);
  c->seed = rng_u64(r) >> 1;
  c->monitor = 1;
  c->mode = rng_chance(r, 1, 2) ? 1 : 2;
  int lps[] = { 0, 6, 8, 10, 12, 14, 16 };
  /* per run, each class is enabled with its own rate (swarm): accesses are frequent -> low rates */
  c->logp[YC_ACCESS] = rng_chance(r, 2, 3) ? 10 + (int)rng_below(r, 9) : 0;
  c->logp[YC_FUNC] = rng_chance(r, 1, 2) ? lps[1 + rng_below(r, 6)] : 0;
  c->logp[YC_HEAP] = rng_chance(r, 1, 2) ? 1 + (int)rng_below(r, 6) : 0;
  c->logp[YC_RUNTIME] = rng_chance(r, 2, 3) ? 1 + (int)rng_below(r, 3) : 0;
  c->logp[YC_CRITICAL] = rng_chance(r, 2, 3) ? 1 + (int)rng_below(r, 3) : 0;
  c->pct_d = (int)rng_below(r, 5);
  int ts[] = { 1, 2, 2, 3, 3, 4, 4, 5, 5, 16, 16, 0 };
  int t = ts[rng_below(r, 12)];
  if (!t) t = 1 + (int)rng_below(r, 16);
  if (t > max_team) t = max_team;
  c->team_size = t;
  c->dynamic_team = rng_chance(r, 1, 6);
  c->nested = rng_chance(r, 1, 4);
}
static void par_print_races(FILE *f) {
  for (int i = 0; i < sched_nraces; i++) {
    race_t *r = &sched_races[i];
    fprintf(f, "race error: %s by task %d at pc 0x%llx conflicts with earlier %s by task %d at pc 0x%llx (address %p)\n", r->cur_write ? "write" : "read", r->cur_task,
            (unsigned long long)r->cur_pc, r->prev_write ? "write" : "read", r->prev_task, (unsigned long long)r->prev_pc, (void *)r->addr);
  }
}
#endif
