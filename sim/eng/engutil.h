/* Shared engine plumbing: forked runs with captured stderr, files, worker protocol. */
#ifndef M4SIM_ENGUTIL_H
#define M4SIM_ENGUTIL_H
#include "../ops.h"
#include "../gen.h"
typedef struct { int fate; int status; long stderr_bytes; } child_res_t;
/* runs fn(ud) in a forked child with fd 2 redirected to stderr_path (truncated); child _exit(0)s after fn returns */
int eng_fork_run(void (*fn)(void *), void *ud, const char *stderr_path, int timeout_s, child_res_t *res);
void eng_write_file(const char *path, const char *text);
char *eng_read_file(const char *path, size_t *n);
uint64_t eng_run_seed(uint64_t seed, const char *engine, uint64_t idx);
const char *eng_first_line_matching(const char *path, const char *needle, char *buf, size_t bufsz);
double eng_now(void); /* wall clock for budgets and rates only; never enters a log or a decision inside a run */
extern uint64_t eng_forks;
extern char eng_top_lib_frame[128];
void eng_find_lib_frame(const char *errpath);
#endif
