/* Engine `omp` (C16): the real -fopenmp build of the library (outlined region
 * bodies, inlined static-schedule arithmetic, calls into the runtime exactly as
 * shipped) runs on the SIMULATED OpenMP runtime of core/sched.c: seeded team
 * sizes 1..16, seeded hand-out of sections, seeded preemption between individual
 * memory accesses, happens-before access monitor.  Oracle: bit-identical to the
 * sequential build; no conflicting unordered accesses; every region joins;
 * temporaries released.   DESIGN.md C16. */
#define _GNU_SOURCE
#include "parcommon.h"
#include <unistd.h>

enum { OV_OK = 0, OV_DIFFERS_BASELINE, OV_DIFFERS_SCHEDULED, OV_RACE, OV_LIVENESS, OV_LEAK, OV_PADDING, OV_INVALID_FREE, OV_MP_VS_MUL, OV_CONTROL_NOT_FLAGGED, OV_N };
static const char *ov_names[OV_N] = { "ok", "parallel_result_differs_from_sequential_unpreempted", "parallel_result_differs_from_sequential", "data_race", "region_never_joins",
                                      "temporary_not_released", "dirty_padding", "invalid_or_double_free", "mp_product_differs_from_sequential_mul", "CONTROL_not_flagged" };

typedef struct {
  uint64_t runs, events, regions, nested, sections, max_sections_one_thread, idle_threads, criticals, switches, preemptions, races_control, team_hist[17];
  uint64_t more_threads_than_sections, fewer_threads_than_sections, thread_ran_2_sections, chunks_spread, dyn_team_runs, nested_real_team;
  uint64_t nhash;
  uint64_t hashes[16384];
} ocov_t;
static ocov_t *cov;
static void note_interleaving(uint64_t h) {
  if (!h) return;
  size_t s = (size_t)(h & 16383);
  for (int k = 0; k < 64; k++) {
    if (cov->hashes[s] == h) return;
    if (!cov->hashes[s]) { cov->hashes[s] = h; cov->nhash++; return; }
    s = (s + 1) & 16383;
  }
}

typedef struct { const char *text; const char *dec_out; } runarg_t;
static const lib_t *L_omp, *L_seq;

#define MAXL 64
static char *plines[MAXL];
static int npl;

/* one execution of the operand + op lines under a given library; returns outcome hash; *pad gets padding verdict */
static uint64_t exec_lines(const lib_t *L, int rename_mp, int *pad, int *skipped) {
  ctx_t c;
  ctx_init(&c, L);
  *pad = -1; *skipped = 0;
  for (int i = 0; i < npl; i++) {
    char buf[512];
    const char *ln = plines[i];
    if (rename_mp && !strncmp(ln, "op mul_mp ", 10)) { snprintf(buf, sizeof buf, "op mul %s", ln + 10); ln = buf; }
    else if (rename_mp && !strncmp(ln, "op addmul_mp ", 13)) { snprintf(buf, sizeof buf, "op addmul %s", ln + 13); ln = buf; }
    int rc = prog_exec_line(&c, ln);
    if (rc == 1 || rc < 0) { *skipped = 1; snprintf(sim_shared->note, sizeof sim_shared->note, "skip: %.80s (%s)", ln, c.skipwhy); ctx_free_all(&c); return 0; }
    if (!strncmp(ln, "op ", 3)) { int pr = ctx_check_padding(&c); if (pr >= 0 && *pad < 0) *pad = pr; }
  }
  uint64_t h = ctx_hash(&c);
  ctx_free_all(&c);
  return h;
}

static int viol;
static char vnote[220];
static void flag(int v, const char *note) { if (viol) return; viol = v; snprintf(vnote, sizeof vnote, "%s", note ? note : ""); }

static void child_run(void *ud) {
  runarg_t *a = (runarg_t *)ud;
  cov = (ocov_t *)SIM_SHARED_EXT;
  L_omp = lib_by_name(strstr(a->text, "lib=ompn") ? "ompn" : "omp"); L_seq = lib_by_name(strstr(a->text, "lib=ompn") ? "seqn" : "seq");
  if (!L_omp || !L_seq) { sim_shared->aux[1] = 1; snprintf(sim_shared->note, sizeof sim_shared->note, "variant not linked"); return; }
  sched_cfg_t cfg;
  int have_cfg = 0, control = 0;
  char *copy = strdup(a->text);
  npl = 0;
  static struct { uint64_t ev; int task; } pts[200000];
  int npts = 0;
  for (char *p = strtok(copy, "\n"); p; p = strtok(NULL, "\n")) {
    if (p[0] == '#' || !p[0]) continue;
    if (!strncmp(p, "knobs ", 6)) { long x, y, z; if (sscanf(p, "knobs %ld %ld %ld", &x, &y, &z) == 3 && x >= 1024 && y >= x && z >= y) { m4sim_l1 = (int)x; m4sim_l2 = (int)y; m4sim_l3 = (int)z; } continue; }
    if (!strncmp(p, "schedcfg ", 9)) { have_cfg = par_parse_cfg(p, &cfg); continue; }
    if (!strncmp(p, "sched ", 6)) { unsigned long long e; int t; if (sscanf(p, "sched %llu %d", &e, &t) == 2 && npts < 200000) { pts[npts].ev = e; pts[npts].task = t; npts++; } continue; }
    if (!strncmp(p, "control ", 8)) { control = 1; continue; }
    if (npl < MAXL) plines[npl++] = p;
  }
  if (!have_cfg) { sim_shared->aux[1] = 1; snprintf(sim_shared->note, sizeof sim_shared->note, "no schedcfg line"); return; }
  int is_mp = 0;
  for (int i = 0; i < npl; i++) if (!strncmp(plines[i], "op mul_mp", 9) || !strncmp(plines[i], "op addmul_mp", 12)) is_mp = 1;
  int pad, skipped;
  heap_config(cfg.seed, FILL_A5, RECYCLE_OFF, 0);

  /* 1. sequential reference */
  uint64_t href, href2 = 0;
  sched_enable(0);
  if (is_mp) { href = exec_lines(L_omp, 0, &pad, &skipped); if (!skipped) href2 = exec_lines(L_seq, 1, &pad, &skipped); }
  else href = exec_lines(L_seq, 0, &pad, &skipped);
  if (skipped) { sim_shared->aux[1] = 1; return; }
  if (is_mp && href != href2 && !control) flag(OV_MP_VS_MUL, "mzd_(add)mul_mp run sequentially and the sequential build's mzd_(add)mul disagree");
  L_omp->m4ri_mmc_cleanup(); L_seq->m4ri_mmc_cleanup();
  sim_shared->aux[5] = 1; /* phase marker: the sequential reference completed; a crash from here on happens only with a team */
  size_t live0 = heap_live_count();
  uint64_t dig0 = heap_live_digest();

  /* 2. team of n, no preemption: also measures the event count for PCT placement and the liveness budget */
  sched_cfg_t base = cfg;
  base.mode = 0;
  base.event_budget = (uint64_t)3e9;
  sched_reset(&base);
  sched_enable(1);
  uint64_t hbase = exec_lines(L_omp, 0, &pad, &skipped);
  sched_enable(0);
  uint64_t E = sched_stats.events;
  if (skipped) { sim_shared->aux[1] = 1; return; }
  if (pad >= 0) flag(OV_PADDING, "excess bits set after a parallel call (unpreempted run)");
  if (hbase != href && !control) { char b[160]; snprintf(b, sizeof b, "team of %d without preemption: outcome %016llx, sequential %016llx", cfg.team_size, (unsigned long long)hbase, (unsigned long long)href); flag(OV_DIFFERS_BASELINE, b); }
  if (sched_nraces && !control) { par_print_races(stderr); flag(OV_RACE, "conflicting unordered accesses (unpreempted run)"); sim_shared->fail_site = sched_races[0].cur_pc; sim_shared->aux[7] = (long)sched_races[0].prev_pc; }
  cov->events += E;

  /* 3. the seeded schedule */
  if (!viol || control) {
    sched_cfg_t run = cfg;
    run.pct_events = E;
    run.event_budget = E * 20 + 2000000;
    if (npts) run.mode = 3;
    sched_reset(&run);
    for (int i = 0; i < npts; i++) sched_add_replay_point(pts[i].ev, pts[i].task);
    sched_enable(1);
    uint64_t hrun = exec_lines(L_omp, 0, &pad, &skipped);
    sched_enable(0);
    sim_shared->aux[2] = (long)sched_stats.events;
    if (a->dec_out) { /* explicit decisions for replay/shrinking */
      size_t cap = 64 + (size_t)sched_stats.switches * 32 + (size_t)sched_stats.forced_choices * 32;
      char *buf = (char *)malloc(cap);
      buf[0] = 0;
      sched_dump_decisions(buf, cap);
      eng_write_file(a->dec_out, buf);
      free(buf);
    }
    if (control) {
      cov->races_control += sched_stats.races;
      if (!sched_stats.races) flag(OV_CONTROL_NOT_FLAGGED, "critical sections were turned off in the simulated runtime and the access monitor saw no conflict");
    } else {
      if (pad >= 0) flag(OV_PADDING, "excess bits set after a parallel call");
      if (hrun != href) { char b[160]; snprintf(b, sizeof b, "team of %d, %llu switches: outcome %016llx, sequential %016llx", cfg.team_size, (unsigned long long)sched_stats.switches, (unsigned long long)hrun, (unsigned long long)href); flag(OV_DIFFERS_SCHEDULED, b); }
      if (sched_nraces && !viol) { par_print_races(stderr); flag(OV_RACE, "conflicting unordered accesses"); sim_shared->fail_site = sched_races[0].cur_pc; sim_shared->aux[7] = (long)sched_races[0].prev_pc; }
    }
    /* coverage */
    cov->runs++;
    cov->events += sched_stats.events; cov->regions += sched_stats.regions; cov->nested += sched_stats.nested_regions; cov->sections += sched_stats.sections_handed;
    if (sched_stats.max_sections_one_thread > cov->max_sections_one_thread) cov->max_sections_one_thread = sched_stats.max_sections_one_thread;
    if (sched_stats.max_sections_one_thread >= 2) cov->thread_ran_2_sections++;
    cov->idle_threads += sched_stats.idle_threads; cov->criticals += sched_stats.criticals; cov->switches += sched_stats.switches; cov->preemptions += sched_stats.preemptions;
    cov->team_hist[cfg.team_size]++;
    if (sched_stats.sections_handed && cfg.team_size > 4) cov->more_threads_than_sections++;
    if (sched_stats.sections_handed && cfg.team_size < 4) cov->fewer_threads_than_sections++;
    if (cfg.dynamic_team) cov->dyn_team_runs++;
    if (cfg.nested && sched_stats.nested_regions) cov->nested_real_team++;
    note_interleaving(sched_stats.interleaving_hash);
    simlog_u64(hrun); simlog_u64(sched_stats.events); simlog_u64(sched_stats.switches);
  }
  heap_viol_t hv = heap_take_violation();
  if (hv.kind != HV_NONE && !control) flag(OV_INVALID_FREE, "invalid or double free in a parallel run");
  L_omp->m4ri_mmc_cleanup();
  if (!viol && !control && (heap_live_count() != live0 || heap_live_digest() != dig0)) flag(OV_LEAK, "allocations made inside parallel regions were not released");
  free(copy);
  sim_shared->aux[3] = viol;
  snprintf(sim_shared->note, sizeof sim_shared->note, "%s", vnote);
  sim_shared->result_hash = simlog_hash;
  sim_shared->completed = 1;
}

/* ---------------- generator ---------------- */
static int pdim(rng_t *r, int maxj) {
  int off[] = { 0, 1, 63, 64, 65, -1, 0, 17 };
  int d = 128 * (1 + (int)rng_below(r, (uint64_t)maxj)) + off[rng_below(r, 8)];
  if (rng_chance(r, 1, 6)) d = 1 + (int)rng_below(r, 200);
  return d < 1 ? 1 : d;
}
/* operand line: an owned matrix, or (1 in 4) a view into a larger junk-filled owner at an odd or even word offset */
static void emat(rng_t *r, sbuf_t *o, int reg, int m, int n, const char *gen, long p, unsigned long long s) {
  if (rng_chance(r, 1, 4)) {
    int r0s[] = { 0, 1, 3, 0 }, c0s[] = { 1, 1, 0, 2, 3 }, ecs[] = { 0, 5, 64, 70, 0 };
    sb_printf(o, "wmat %d %d %d %s %ld %llu %d %d %d %d\n", reg, m, n, gen, p, s, r0s[rng_below(r, 4)], c0s[rng_below(r, 5)], (int)rng_below(r, 3), ecs[rng_below(r, 5)]);
  } else sb_printf(o, "mat %d %d %d %s %ld %llu\n", reg, m, n, gen, p, s);
}
static const char *OMP_OPS[] = { "mul_mp", "addmul_mp", "mul_mp", "addmul_mp", "mul", "addmul", "mul_m4rm", "addmul_m4rm", "ech_m4ri", "ech", "top_ech", "inv_m4ri", "pluq", "ple", "solve", "kernel", "sqr", "ech_pluq" };
#define N_OMP_OPS 18
static void gen_program(uint64_t rseed, uint64_t idx, const char *tier, sbuf_t *o, int control) {
  rng_t root = rng_make(rseed);
  rng_t r = rng_split(&root, "gen"), rs = rng_split(&root, "sched");
  int thorough = !strcmp(tier, "thorough");
  const char *op = OMP_OPS[idx % N_OMP_OPS];
  if (control) op = (idx & 1) ? "mul_mp" : "addmul_mp";
  sb_printf(o, "# m4sim engine=omp scenario=%s lib=%s\n", op, (idx / N_OMP_OPS) % 3 == 2 ? "ompn" : "omp"); /* every third round: the no-SSE2 OpenMP build against the no-SSE2 sequential build */
  if (control) sb_printf(o, "control critical_sections_off\n");
  if (rng_chance(&r, 1, 2)) sb_printf(o, "knobs %d %d %d\n", 4096 << rng_below(&r, 4), 32768 << rng_below(&r, 3), 262144 << rng_below(&r, 4));
  sched_cfg_t c;
  par_random_cfg(&rs, &c, 16);
  if (control) { c.critical_off = 1; c.dynamic_team = 0; if (c.team_size < 2) c.team_size = 4; c.mode = 1; c.logp[YC_RUNTIME] = 1; c.logp[YC_CRITICAL] = 1; c.logp[YC_ACCESS] = 12; c.logp[YC_HEAP] = 1; }
  par_emit_cfg(o, &c);
  int mj = thorough ? 6 : 3;
  long cut[] = { 64, 128, 192, 0, 64, 128 };
  unsigned long long s1 = (unsigned long long)(rng_u64(&r) >> 1), s2 = (unsigned long long)(rng_u64(&r) >> 1), s3 = (unsigned long long)(rng_u64(&r) >> 1);
#define IS(x) (!strcmp(op, x))
  if (IS("mul_mp") || IS("addmul_mp") || IS("mul") || IS("addmul")) {
    int m = pdim(&r, mj), l = pdim(&r, mj), n = pdim(&r, mj);
    if (control) { m = 256 + (int)rng_below(&r, 200); l = 256 + (int)rng_below(&r, 200); n = 256 + (int)rng_below(&r, 200); } /* sections with temporaries: the block cache is used concurrently */
    emat(&r, o, 1, m, l, "rand", 128, s1); emat(&r, o, 2, l, n, "rand", 128, s2);
    int given = (IS("addmul_mp") || IS("addmul")) ? rng_chance(&r, 3, 4) : rng_chance(&r, 1, 2);
    if (given) emat(&r, o, 0, m, n, "rand", 128, s3);
    sb_printf(o, "op %s 0 1 2 %ld\n", op, control ? 64 : cut[rng_below(&r, 6)]);
  } else if (IS("sqr")) {
    int n = pdim(&r, mj);
    sb_printf(o, "mat 1 %d %d rand 128 %llu\nop sqr 0 1 %ld\n", n, n, s1, cut[rng_below(&r, 6)]);
  } else if (IS("mul_m4rm") || IS("addmul_m4rm")) {
    int m = rng_chance(&r, 1, 2) ? 513 + (int)rng_below(&r, thorough ? 1800 : 900) : pdim(&r, mj), l = pdim(&r, mj > 3 ? 3 : mj), n = rng_chance(&r, 1, 2) ? 1 + (int)rng_below(&r, 200) : pdim(&r, mj);
    if (rng_chance(&r, 1, 4)) m = 2049 + (int)rng_below(&r, 700); /* a second block of rows (__M4RI_MUL_BLOCKSIZE is at most 2048) */
    emat(&r, o, 1, m, l, "rand", 128, s1); emat(&r, o, 2, l, n, "rand", 128, s2);
    if (IS("addmul_m4rm") || rng_chance(&r, 1, 2)) emat(&r, o, 0, m, n, "rand", 128, s3);
    sb_printf(o, "op %s 0 1 2 %d\n", op, (int)rng_below(&r, 9));
  } else if (IS("ech_m4ri") || IS("ech") || IS("top_ech") || IS("ech_pluq")) {
    int m = rng_chance(&r, 1, 2) ? 520 + (int)rng_below(&r, thorough ? 1600 : 800) : pdim(&r, mj), n = rng_chance(&r, 1, 2) ? 20 + (int)rng_below(&r, 250) : pdim(&r, mj);
    if (rng_chance(&r, 1, 4)) { m = 2049 + (int)rng_below(&r, 700); if (n > 330) n = 70 + n % 260; }
    emat(&r, o, 0, m, n, rng_chance(&r, 1, 3) ? "rank" : "rand", rng_chance(&r, 1, 2) ? 128 : 1 + (long)rng_below(&r, (uint64_t)(m < n ? m : n)), s1);
    if (IS("ech_m4ri")) sb_printf(o, "op ech_m4ri 0 %d %d\n", (int)rng_below(&r, 2), (int)rng_below(&r, 11));
    else if (IS("top_ech")) sb_printf(o, "op top_ech 0 %d\n", (int)rng_below(&r, 11));
    else sb_printf(o, "op %s 0 %d\n", op, (int)rng_below(&r, 2));
  } else if (IS("inv_m4ri")) {
    int n = pdim(&r, mj);
    sb_printf(o, "mat 1 %d %d inv 0 %llu\nop inv_m4ri 0 1 %d\n", n, n, s1, (int)rng_below(&r, 9));
  } else if (IS("pluq") || IS("ple")) {
    int m = pdim(&r, mj), n = pdim(&r, mj);
    if (rng_chance(&r, 1, 3)) { m = 2049 + (int)rng_below(&r, 700); n = 70 + (int)rng_below(&r, 260); } /* more rows than one 2048-row block below the pivot strip */
    sb_printf(o, "mat 0 %d %d rand 128 %llu\nperm 0 %d id 0\nperm 1 %d id 0\nop %s 0 0 1 %ld\n", m, n, s1, m, n, op, cut[rng_below(&r, 6)]);
  } else if (IS("solve")) {
    int m = pdim(&r, mj), n = pdim(&r, mj), w = pdim(&r, 2);
    sb_printf(o, "mat 0 %d %d rand 128 %llu\nmat 1 %d %d rand 128 %llu\nop solve 0 1 %ld\n", m, n, s1, m > n ? m : n, w, s2, cut[rng_below(&r, 6)]);
  } else if (IS("kernel")) {
    int m = pdim(&r, mj), n = pdim(&r, mj);
    sb_printf(o, "mat 1 %d %d rank %d %llu\nop kernel 0 1 %ld\n", m, n, 1 + (int)rng_below(&r, (uint64_t)(m < n ? m : n)), s1, cut[rng_below(&r, 6)]);
  }
#undef IS
}

static int g_control;
static const char *classify(const child_res_t *cr) {
  if (sim_shared->aux[1]) return "SKIPPED";
  if (g_control && (cr->fate != FATE_EXIT0 || sim_shared->aux[6])) return "ok"; /* a runtime without mutual exclusion may crash or hang the library: not a finding */
  if (sim_shared->aux[6]) return ov_names[OV_LIVENESS];
  if (cr->fate != FATE_EXIT0 && sim_shared->aux[5]) { static char b[80]; snprintf(b, sizeof b, "team_run_%s_where_sequential_run_completed", fate_names[cr->fate]); return b; } /* C16: some team size / schedule does not give the sequential outcome */
  if (cr->fate != FATE_EXIT0) { static char b[64]; snprintf(b, sizeof b, "faultfree_%s", fate_names[cr->fate]); return b; }
  if (!sim_shared->completed) return "incomplete";
  return ov_names[sim_shared->aux[3]];
}
static const char *prop_of(const char *cls) { return (!strncmp(cls, "faultfree_", 10) || !strcmp(cls, "temporary_not_released") || !strcmp(cls, "invalid_or_double_free")) ? "C11" : "C16"; }

static int cmd_worker(int argc, char **argv) {
  if (argc < 7) return 2;
  uint64_t seed = strtoull(argv[2], NULL, 10), first = strtoull(argv[3], NULL, 10), count = strtoull(argv[4], NULL, 10);
  const char *tier = argv[5], *outdir = argv[6];
  double budget = argc > 7 ? atof(argv[7]) : 1e9, t0 = eng_now();
  int control = argc > 8 && !strcmp(argv[8], "control");
  g_control = control;
  char errpath[512], cur[512];
  snprintf(errpath, sizeof errpath, "%s/stderr-%llu.txt", outdir, (unsigned long long)first);
  snprintf(cur, sizeof cur, "%s/cur-%llu.prog", outdir, (unsigned long long)first);
  sbuf_t sb = { 0 };
  cov = (ocov_t *)SIM_SHARED_EXT;
  for (uint64_t idx = first; idx < first + count; idx++) {
    if (eng_now() - t0 > budget) { printf("B idx=%llu budget exhausted\n", (unsigned long long)idx); break; }
    sb_reset(&sb);
    gen_program(eng_run_seed(seed, control ? "ompctl" : "omp", idx), idx, tier, &sb, control);
    eng_write_file(cur, sb.s);
    runarg_t a = { sb.s, NULL };
    child_res_t cr;
    eng_fork_run(child_run, &a, errpath, 200, &cr);
    const char *cls = classify(&cr);
    char scen[64] = "?";
    const char *s = strstr(sb.s, "scenario=");
    if (s) sscanf(s, "scenario=%63s", scen);
    if (strcmp(cls, "ok") && strcmp(cls, "SKIPPED")) {
      char fn[512], buf[300];
      snprintf(fn, sizeof fn, "%s/viol-%s%llu.prog", outdir, control ? "ctl" : "", (unsigned long long)idx);
      eng_write_file(fn, sb.s);
      eng_first_line_matching(errpath, "rror", buf, sizeof buf);
      eng_find_lib_frame(errpath);
      printf("V idx=%llu prop=%s class=%s func=%s site=0x%llx site2=0x%lx scen=%s file=%s detail=%s | %s\n", (unsigned long long)idx, prop_of(cls), cls, eng_top_lib_frame[0] ? eng_top_lib_frame : "-",
             (unsigned long long)sim_shared->fail_site, (unsigned long)sim_shared->aux[7], scen, fn, sim_shared->note, buf);
    }
    if (!strcmp(cls, "SKIPPED")) printf("K idx=%llu scen=%s %s\n", (unsigned long long)idx, scen, sim_shared->note);
    printf("R idx=%llu class=%s scen=%s events=%ld hash=%016llx\n", (unsigned long long)idx, cls, scen, (long)sim_shared->aux[2], (unsigned long long)sim_shared->result_hash);
    fflush(stdout);
  }
  printf("T forks=%llu runs=%llu events=%llu regions=%llu nested=%llu sections=%llu max_sections_one_thread=%llu idle_threads=%llu criticals=%llu switches=%llu preemptions=%llu interleavings=%llu races_control=%llu "
         "p.more_threads_than_sections=%llu p.fewer_threads_than_sections=%llu p.thread_ran_2_or_more_sections=%llu p.dynamic_team_size=%llu p.nested_region_with_real_team=%llu p.nested_region=%llu team_hist=",
         (unsigned long long)eng_forks, (unsigned long long)cov->runs, (unsigned long long)cov->events, (unsigned long long)cov->regions, (unsigned long long)cov->nested, (unsigned long long)cov->sections,
         (unsigned long long)cov->max_sections_one_thread, (unsigned long long)cov->idle_threads, (unsigned long long)cov->criticals, (unsigned long long)cov->switches, (unsigned long long)cov->preemptions,
         (unsigned long long)cov->nhash, (unsigned long long)cov->races_control, (unsigned long long)cov->more_threads_than_sections, (unsigned long long)cov->fewer_threads_than_sections,
         (unsigned long long)cov->thread_ran_2_sections, (unsigned long long)cov->dyn_team_runs, (unsigned long long)cov->nested_real_team, (unsigned long long)cov->nested);
  for (int i = 1; i <= 16; i++) printf("%s%llu", i > 1 ? "," : "", (unsigned long long)cov->team_hist[i]);
  printf("\n");
  return 0;
}

static int cmd_exec(int argc, char **argv, int explicit_out) {
  if (argc < 3) return 2;
  char *text = eng_read_file(argv[2], NULL);
  if (!text) return 2;
  char errpath[512], decpath[512];
  snprintf(errpath, sizeof errpath, "%s.stderr", argv[2]);
  snprintf(decpath, sizeof decpath, "%s.dec", argv[2]);
  cov = (ocov_t *)SIM_SHARED_EXT;
  g_control = strstr(text, "\ncontrol ") != NULL;
  runarg_t a = { text, explicit_out ? decpath : NULL };
  child_res_t cr;
  eng_fork_run(child_run, &a, errpath, 200, &cr);
  const char *cls = classify(&cr);
  char buf[300];
  eng_first_line_matching(errpath, "rror", buf, sizeof buf);
  eng_find_lib_frame(errpath);
  printf("X class=%s prop=%s func=%s site=0x%llx site2=0x%lx events=%ld hash=%016llx detail=%s | %s\n", cls, prop_of(cls), eng_top_lib_frame[0] ? eng_top_lib_frame : "-", (unsigned long long)sim_shared->fail_site,
         (unsigned long)sim_shared->aux[7], (long)sim_shared->aux[2], (unsigned long long)sim_shared->result_hash, sim_shared->note, buf);
  if (explicit_out && argc > 3) { /* OUT = program with the schedule written out as explicit decisions */
    char *dec = eng_read_file(decpath, NULL);
    sbuf_t o = { 0 };
    for (char *p = strtok(text, "\n"); p; p = strtok(NULL, "\n")) {
      if (!strncmp(p, "sched ", 6)) continue;
      if (!strncmp(p, "schedcfg ", 9)) {
        sched_cfg_t c;
        par_parse_cfg(p, &c);
        c.mode = 3;
        par_emit_cfg(&o, &c);
        if (dec) sb_printf(&o, "%s", dec);
      } else sb_printf(&o, "%s\n", p);
    }
    eng_write_file(argv[3], o.s);
    free(o.s); free(dec);
  }
  unlink(decpath);
  if (!getenv("M4SIM_KEEP_STDERR")) unlink(errpath);
  return 0;
}

int main(int argc, char **argv) {
  setvbuf(stdout, NULL, _IOLBF, 0);
  sim_shared_init();
  if (argc >= 2 && !strcmp(argv[1], "worker")) return cmd_worker(argc, argv);
  if (argc >= 2 && !strcmp(argv[1], "exec")) return cmd_exec(argc, argv, 0);
  if (argc >= 2 && !strcmp(argv[1], "explicit")) return cmd_exec(argc, argv, 1);
  return 2;
}
