/* Engine `fs` (C18): the library's readers and writers run against a simulated
 * file system (torn files, bit flips at rest, EIO, short reads, ENOSPC, open and
 * close failures, foreign writers) and a simulated clock.  libpng and zlib are
 * real.  Every faulted execution is a forked child; its fate and the verdict the
 * child computed (shared page) are judged against the admissible set.  DESIGN C18. */
#define _GNU_SOURCE
#include "engutil.h"
#include <errno.h>
#include <png.h>
#include <stdlib.h>
#include <unistd.h>

enum { VD_NONE = 0, VD_EQUAL, VD_NULL, VD_DIFFERENT, VD_DIRTY_PADDING, VD_ACCEPTED, VD_LEAK, VD_WRITE_FAILED_REPORTED, VD_WRITE_OK, VD_BADDIMS, VD_REF_REJECT_BUT_RETURNED, VD_N };
static const char *vd_names[VD_N] = { "none", "equal", "null", "different_matrix", "dirty_padding", "accepted_unsupported", "leak", "write_failure_reported", "write_ok", "wrong_dimensions", "accepted_malformed" };

/* ---------- reach probes ---------- */
#define NPROBE 45
static const char *probe_names[NPROBE] = {
  "torn_in_signature", "torn_in_IHDR", "torn_in_tEXt", "torn_in_IDAT", "torn_in_IEND", "torn_at_chunk_boundary",
  "flip_in_length", "flip_in_type", "flip_in_data", "flip_in_crc", "flip_in_signature",
  "eio_on_png_read", "short_reads_roundtrip", "foreign_depth1", "foreign_depth2", "foreign_depth4", "foreign_depth8", "foreign_depth16",
  "foreign_gray", "foreign_palette", "foreign_rgb", "foreign_rgba", "foreign_gray_alpha", "foreign_interlaced",
  "jcf_index0", "jcf_positive_first", "jcf_index_too_large", "jcf_too_many_rows", "jcf_bad_modulus", "jcf_short_header", "jcf_negative_dims", "jcf_huge_dims", "jcf_torn", "jcf_valid", "jcf_garbage_token", "jcf_long_min",
  "write_trailer_on_buffer_boundary", "write_unbuffered", "write_enospc", "write_open_fail", "write_close_fail", "roundtrip_plain", "from_str", "jcf_eio", "torn_between_IDAT_chunks" };
static uint64_t probes[NPROBE];
static int probe_id(const char *n) { for (int i = 0; i < NPROBE; i++) if (!strcmp(probe_names[i], n)) return i; return -1; }
static void probe(const char *n) { int i = probe_id(n); if (i >= 0) probes[i]++; }

/* ---------- reference JCF reader (written from the format description in io.h) ---------- */
typedef struct { int reject; long m, n; unsigned char *bits; } jref_t; /* bits: m*n bytes */
static int scan_long(const char **pp, const char *end, long *out) { /* scanf("%ld") semantics, no overflow in our inputs */
  const char *p = *pp;
  while (p < end && (*p == ' ' || *p == '\n' || *p == '\t' || *p == '\r' || *p == '\f' || *p == '\v')) p++;
  if (p >= end) return -1; /* EOF */
  const char *s = p;
  int neg = 0;
  if (*p == '-' || *p == '+') { neg = *p == '-'; p++; }
  if (p >= end) return -1; /* a lone sign at the very end: the file was cut inside a token, indistinguishable from EOF */
  if (*p < '0' || *p > '9') { (void)s; return 0; } /* matching failure */
  long v = 0;
  int digits = 0;
  while (p < end && *p >= '0' && *p <= '9') { if (digits < 18) v = v * 10 + (*p - '0'); digits++; p++; }
  *out = neg ? -v : v;
  *pp = p;
  return 1;
}
static jref_t jcf_reference(const unsigned char *data, size_t len) {
  jref_t r = { 0, 0, 0, NULL };
  const char *p = (const char *)data, *end = p + len;
  long m, n, pp, nnz;
  if (scan_long(&p, end, &m) != 1 || scan_long(&p, end, &n) != 1 || scan_long(&p, end, &pp) != 1 || scan_long(&p, end, &nnz) != 1) { r.reject = 1; return r; }
  if (pp != 2 || m < 0 || n < 0 || m > 0x7fffffffL || n > 0x7fffffffL) { r.reject = 1; return r; }
  {
    double width = (double)((n + 63) / 64), stride = width + (double)(((n + 63) / 64) & 1);
    if ((double)m * stride * 8.0 > (double)((size_t)64 << 20)) { r.reject = 2; return r; } /* exceeds the simulated memory limit: library must die or return NULL */
    if ((double)m * (double)n > 32e6) { r.reject = 3; return r; } /* reference declines (never generated) */
  }
  r.m = m; r.n = n;
  r.bits = (unsigned char *)calloc((size_t)(m * n) + 1, 1);
  long i = -1, j;
  int rc;
  while ((rc = scan_long(&p, end, &j)) == 1) {
    if (j < 0) { i++; j = -j; }
    if (j == 0 || j > n || i < 0 || i >= m) { r.reject = 1; free(r.bits); r.bits = NULL; return r; }
    r.bits[i * n + (j - 1)] = 1;
  }
  if (rc == 0) { r.reject = 1; free(r.bits); r.bits = NULL; } /* something that is not a number where an entry should be: corrupted data */
  return r;
}

/* ---------- PNG chunk map (for probes) ---------- */
static const char *png_region(const unsigned char *d, size_t n, size_t off, int *field) { /* field: 0 len 1 type 2 data 3 crc */
  *field = 2;
  if (off < 8) return "signature";
  size_t p = 8;
  while (p + 8 <= n) {
    size_t len = ((size_t)d[p] << 24) | ((size_t)d[p + 1] << 16) | ((size_t)d[p + 2] << 8) | d[p + 3];
    size_t endc = p + 12 + len;
    if (off < endc || endc > n) {
      static char ty[5];
      memcpy(ty, d + p + 4, 4); ty[4] = 0;
      *field = off < p + 4 ? 0 : off < p + 8 ? 1 : off < p + 8 + len ? 2 : 3;
      return ty;
    }
    p = endc;
  }
  return "tail";
}

/* ---------- foreign PNG writer (harness side, straight libpng) ---------- */
static int write_foreign_png(const char *path, int w, int h, int depth, int ctype, int interlace, uint64_t seed, unsigned char **pix_out) {
  FILE *fp = simfs_open_harness(path, "wb");
  if (!fp) return -1;
  png_structp png = png_create_write_struct(PNG_LIBPNG_VER_STRING, NULL, NULL, NULL);
  png_infop info = png_create_info_struct(png);
  if (setjmp(png_jmpbuf(png))) { png_destroy_write_struct(&png, &info); fclose(fp); return -1; }
  png_init_io(png, fp);
  png_set_IHDR(png, info, (png_uint_32)w, (png_uint_32)h, depth, ctype, interlace ? PNG_INTERLACE_ADAM7 : PNG_INTERLACE_NONE, PNG_COMPRESSION_TYPE_DEFAULT, PNG_FILTER_TYPE_DEFAULT);
  if (ctype == PNG_COLOR_TYPE_PALETTE) {
    png_color pal[256];
    int np = 1 << depth;
    for (int i = 0; i < np; i++) { pal[i].red = pal[i].green = pal[i].blue = (png_byte)(i * 255 / (np - 1)); }
    png_set_PLTE(png, info, pal, np);
  }
  png_write_info(png, info);
  int channels = ctype == PNG_COLOR_TYPE_GRAY ? 1 : ctype == PNG_COLOR_TYPE_GRAY_ALPHA ? 2 : ctype == PNG_COLOR_TYPE_PALETTE ? 1 : ctype == PNG_COLOR_TYPE_RGB ? 3 : 4;
  size_t rowbytes = ((size_t)w * (size_t)channels * (size_t)depth + 7) / 8;
  rng_t r = rng_make(seed ^ 0x706e67ULL);
  unsigned char *img = (unsigned char *)malloc(rowbytes * (size_t)h + 1);
  for (size_t i = 0; i < rowbytes * (size_t)h; i++) img[i] = (unsigned char)rng_u64(&r);
  png_bytep *rows = (png_bytep *)malloc(sizeof(png_bytep) * (size_t)h);
  for (int i = 0; i < h; i++) rows[i] = img + (size_t)i * rowbytes;
  png_write_image(png, rows);
  png_write_end(png, info);
  png_destroy_write_struct(&png, &info);
  fclose(fp);
  free(rows);
  if (pix_out) *pix_out = img; else free(img);
  return 0;
}

/* ---------- program execution (child side) ---------- */
typedef struct { const char *text; } runarg_t;
static unsigned char *foreign_pix; static int foreign_w, foreign_h; /* for supported foreign files: expected pixels */

static void set_verdict(int v) { if (sim_shared->aux[3] == VD_NONE || v == VD_DIFFERENT || v == VD_DIRTY_PADDING || v == VD_ACCEPTED || v == VD_LEAK || v == VD_REF_REJECT_BUT_RETURNED || v == VD_BADDIMS) sim_shared->aux[3] = v; }

static int parse_plan(const char *line, simfs_plan_t *pl) {
  memset(pl, 0, sizeof *pl);
  pl->read_eio_at = pl->eof_at = pl->write_fail_at = -1;
  const char *p = line;
  char key[32]; long val;
  while ((p = strchr(p, ' '))) {
    p++;
    if (sscanf(p, "%31[a-z_]=%ld", key, &val) == 2) {
      if (!strcmp(key, "eof_at")) pl->eof_at = val;
      else if (!strcmp(key, "eio_at")) pl->read_eio_at = val;
      else if (!strcmp(key, "short")) pl->short_reads = (int)val;
      else if (!strcmp(key, "open_errno")) pl->open_errno = (int)val;
      else if (!strcmp(key, "write_fail_at")) pl->write_fail_at = val;
      else if (!strcmp(key, "close_fails")) pl->close_fails = (int)val;
      else if (!strcmp(key, "unbuffered")) pl->unbuffered = (int)val;
    }
  }
  return 0;
}
static const char *fpath(long i, char *buf) { snprintf(buf, 32, "/sim/f%ld", i); return buf; }

static uint32_t dump_from_id;
static void dump_live(void *p, size_t size, uint32_t id, const void *site, void *ud) {
  (void)p; (void)ud;
  if (id >= dump_from_id) fprintf(stderr, "  live block id=%u size=%zu site=%p\n", id, size, site);
}
static void child_run(void *ud) {
  runarg_t *a = (runarg_t *)ud;
  ctx_t c;
  ctx_init(&c, m4sim_libs[0]);
  heap_set_limit((size_t)64 << 20);
  heap_config(fnv1a(a->text, strlen(a->text), FNV0), FILL_A5, RECYCLE_OFF, 0); /* fixed non-zero content of fresh heap memory: reproducible whatever reads it */
  simfs_reset(1);
  sim_shared->aux[5] = -1;
  size_t fini_lv[16]; /* ledger level with variant i finalised (the others initialised), on the pristine library */
  for (int i = 0; i < m4sim_nlibs && i < 16; i++) { const lib_t *Li = m4sim_libs[i]; Li->m4ri_mmc_cleanup(); Li->m4ri_fini(); fini_lv[i] = heap_live_count(); Li->m4ri_init(); }
  size_t live0 = heap_live_count();
  dump_from_id = heap_next_id();
  uint64_t dig0 = heap_live_digest();
  const char *p = a->text;
  char line[512], fn[32];
  int lineno = 0;
  while (*p) {
    const char *e = strchr(p, '\n');
    size_t len = e ? (size_t)(e - p) : strlen(p);
    if (len >= sizeof line) len = sizeof line - 1;
    memcpy(line, p, len); line[len] = 0;
    p = e ? e + 1 : p + len;
    lineno++;
    sim_shared->aux[0] = lineno;
    char w0[32] = "";
    sscanf(line, "%31s", w0);
    if (!strcmp(w0, "clock")) { long long t = 0, j = 0; sscanf(line, "clock %lld %lld", &t, &j); simclock_set(t, j); continue; }
    if (!strcmp(w0, "fsfault")) { long f = 0; simfs_plan_t pl; sscanf(line, "fsfault %ld", &f); parse_plan(line, &pl); simfs_plan(fpath(f, fn), &pl); continue; }
    if (!strcmp(w0, "flip")) {
      long f, byte, bit;
      if (sscanf(line, "flip %ld %ld %ld", &f, &byte, &bit) != 3) continue;
      size_t n; const unsigned char *d = simfs_get(fpath(f, fn), &n);
      if (!d || (size_t)byte >= n) { sim_shared->aux[1] = 1; snprintf(sim_shared->note, sizeof sim_shared->note, "flip outside file"); return; }
      unsigned char *cp = (unsigned char *)malloc(n);
      memcpy(cp, d, n); cp[byte] ^= (unsigned char)(1u << (bit & 7));
      simfs_put(fpath(f, fn), cp, n); free(cp);
      continue;
    }
    if (!strcmp(w0, "pngfile")) { /* pngfile F w h depth ctype interlace seed */
      long f, w, h, dp, ct, il; unsigned long long s;
      if (sscanf(line, "pngfile %ld %ld %ld %ld %ld %ld %llu", &f, &w, &h, &dp, &ct, &il, &s) != 7) continue;
      free(foreign_pix); foreign_pix = NULL;
      if (write_foreign_png(fpath(f, fn), (int)w, (int)h, (int)dp, (int)ct, (int)il, s, &foreign_pix) != 0) { sim_shared->aux[1] = 1; snprintf(sim_shared->note, sizeof sim_shared->note, "foreign writer refused %ldx%ld d%ld c%ld", w, h, dp, ct); return; }
      foreign_w = (int)w; foreign_h = (int)h;
      continue;
    }
    if (!strcmp(w0, "rawfile") || !strcmp(w0, "rawappend")) { /* rawfile F <text with \n escapes> ; rawappend appends */
      long f; int off = 0;
      if (sscanf(line, "%*s %ld %n", &f, &off) < 1) continue;
      char buf[512]; size_t k = 0;
      if (off) for (const char *q = line + off; *q && k < sizeof buf - 1; q++) {
        if (q[0] == '\\' && q[1] == 'n') { buf[k++] = '\n'; q++; } else buf[k++] = *q;
      }
      if (!strcmp(w0, "rawfile")) simfs_put(fpath(f, fn), buf, k);
      else {
        size_t n0; const unsigned char *d0 = simfs_get(fpath(f, fn), &n0);
        unsigned char *cat = (unsigned char *)malloc(n0 + k + 1);
        if (d0) memcpy(cat, d0, n0);
        memcpy(cat + n0, buf, k);
        simfs_put(fpath(f, fn), cat, n0 + k);
        free(cat);
      }
      continue;
    }
    if (!strcmp(w0, "expect")) {
      char mode[32]; long x = -1, y = -1;
      sscanf(line, "expect %31s %ld %ld", mode, &x, &y);
      if (!strcmp(mode, "equal") || !strcmp(mode, "equal_or_null")) { /* register y must equal register x (or be absent = NULL) */
        mzd_t *A = (x >= 0 && x < NREG) ? c.m[x] : NULL, *B = (y >= 0 && y < NREG) ? c.m[y] : NULL;
        if (!B) set_verdict(VD_NULL);
        else if (!A || A->nrows != B->nrows || A->ncols != B->ncols) set_verdict(VD_DIFFERENT);
        else if (mat_hash(A, FNV0) != mat_hash(B, FNV0)) set_verdict(VD_DIFFERENT);
        else if (mat_padding_dirty(B)) set_verdict(VD_DIRTY_PADDING);
        else set_verdict(VD_EQUAL);
      } else if (!strcmp(mode, "rejected")) { /* register x must be absent */
        if (x >= 0 && x < NREG && c.m[x]) set_verdict(VD_ACCEPTED); else set_verdict(VD_NULL);
      } else if (!strcmp(mode, "foreign1bit")) { /* register x must hold !pixel of the foreign gray 1-bit file (or be NULL only if file damaged) */
        mzd_t *B = (x >= 0 && x < NREG) ? c.m[x] : NULL;
        if (!B) set_verdict(VD_NULL);
        else if (B->nrows != foreign_h || B->ncols != foreign_w) set_verdict(VD_BADDIMS);
        else {
          int bad = 0;
          size_t rb = ((size_t)foreign_w + 7) / 8;
          for (int i = 0; i < foreign_h && !bad; i++)
            for (int j = 0; j < foreign_w; j++) {
              int pix = (foreign_pix[(size_t)i * rb + (size_t)j / 8] >> (7 - j % 8)) & 1;
              if (mzd_read_bit(B, i, j) != !pix) { bad = 1; break; }
            }
          set_verdict(bad ? VD_DIFFERENT : mat_padding_dirty(B) ? VD_DIRTY_PADDING : VD_EQUAL);
        }
      } else if (!strcmp(mode, "jcfref")) { /* register x against the reference reader applied to what file y delivers */
        size_t n; const unsigned char *d = simfs_get(fpath(y, fn), &n);
        long cut = sim_shared->aux[5];
        if (cut >= 0 && (size_t)cut < n) n = (size_t)cut;
        jref_t r = jcf_reference(d ? d : (const unsigned char *)"", d ? n : 0);
        mzd_t *B = (x >= 0 && x < NREG) ? c.m[x] : NULL;
        if (r.reject == 3) { sim_shared->aux[1] = 1; snprintf(sim_shared->note, sizeof sim_shared->note, "reference reader declines this size"); return; }
        if (r.reject) set_verdict(B ? VD_REF_REJECT_BUT_RETURNED : VD_NULL);
        else if (!B) set_verdict(sim_shared->aux[6] ? VD_NULL : VD_DIFFERENT); /* NULL is admissible only under an injected read error */
        else if (B->nrows != r.m || B->ncols != r.n) set_verdict(VD_BADDIMS);
        else {
          int bad = 0;
          for (long i = 0; i < r.m && !bad; i++) for (long j = 0; j < r.n; j++) if (mzd_read_bit(B, (rci_t)i, (rci_t)j) != r.bits[i * r.n + j]) { bad = 1; break; }
          set_verdict(bad ? VD_DIFFERENT : mat_padding_dirty(B) ? VD_DIRTY_PADDING : VD_EQUAL);
        }
        free(r.bits);
      } else if (!strcmp(mode, "str")) { /* expect str R seed : register R must be the matrix the seeded 0/1 string denotes (row major) */
        unsigned long long sd = 0; long rr = -1;
        sscanf(line, "expect str %ld %llu", &rr, &sd);
        mzd_t *B = (rr >= 0 && rr < NREG) ? c.m[rr] : NULL;
        if (!B) set_verdict(VD_NULL);
        else {
          rng_t r2 = rng_make((uint64_t)sd ^ 0x737472ULL);
          int bad = 0;
          for (rci_t i = 0; i < B->nrows; i++) for (rci_t j = 0; j < B->ncols; j++) { int bit = (int)(rng_u64(&r2) & 1); if (mzd_read_bit(B, i, j) != bit) bad = 1; }
          set_verdict(bad ? VD_DIFFERENT : mat_padding_dirty(B) ? VD_DIRTY_PADDING : VD_EQUAL);
        }
      } else if (!strcmp(mode, "write")) { /* last scalar = return value of to_png */
        long rv = c.nret ? c.ret[c.nret - 1] : -99;
        sim_shared->aux[7] = rv == 0 ? VD_WRITE_OK : VD_WRITE_FAILED_REPORTED;
      } else if (!strcmp(mode, "balanced")) { /* everything the calls allocated was released (registers freed first) */
        ctx_free_all(&c);
        c.L->m4ri_mmc_cleanup(); /* blocks parked in the block cache are retained on purpose, not leaked */
        int leaked = heap_live_count() != live0 || heap_live_digest() != dig0;
        if (leaked) { /* what the library keeps for re-use until it is finalised is not a leak: finalise and compare with the pristine level */
          int li = 0;
          for (int i = 0; i < m4sim_nlibs && i < 16; i++) if (m4sim_libs[i] == c.L) li = i;
          c.L->m4ri_fini(); size_t n = heap_live_count(); c.L->m4ri_init();
          leaked = n != fini_lv[li];
        }
        if (leaked) { set_verdict(VD_LEAK); fprintf(stderr, "ledger error: %zu live library blocks, %zu expected\n", heap_live_count(), live0); heap_iter_live(dump_live, NULL); }
      }
      continue;
    }
    if (!strcmp(w0, "cut")) { long v = -1; sscanf(line, "cut %ld", &v); sim_shared->aux[5] = v; continue; } /* what the reference reader sees of a torn file */
    if (!strcmp(w0, "ioerr")) { sim_shared->aux[6] = 1; continue; }
    int rc = prog_exec_line(&c, line);
    if (rc == 1 || rc < 0) { sim_shared->aux[1] = 1; snprintf(sim_shared->note, sizeof sim_shared->note, "skip line %d: %s (%s)", lineno, line, c.skipwhy); return; }
    heap_viol_t hv = heap_take_violation();
    if (hv.kind != HV_NONE) { sim_shared->aux[4] = hv.kind; }
  }
  uint64_t h = ctx_hash(&c);
  size_t n0; const unsigned char *d0 = simfs_get("/sim/f0", &n0);
  if (d0) h = fnv1a(d0, n0, h);
  sim_shared->result_hash = h ^ simlog_hash;
  ctx_free_all(&c);
  sim_shared->completed = 1;
}

/* judge one child. expect_mode: what the program is allowed to end in.
 *  'E': must complete with verdict equal (fault-free planes)
 *  'A': admissible fates {null, die, foreign abort, equal}; never different/dirty/sanitizer/segv
 *  'R': must be rejected: {null, die, foreign abort}
 *  'W': write plane: completes; verdict anything but leak; never sanitizer/segv/abort  */
static const char *judge(const child_res_t *cr, char mode) {
  if (sim_shared->aux[1]) return "SKIPPED";
  if (cr->fate == FATE_SANITIZER) return "sanitizer_report";
  if (cr->fate == FATE_SEGV) return "segv";
  if (cr->fate == FATE_TIMEOUT) return "hang";
  if (cr->fate == FATE_SIGNAL_OTHER || cr->fate == FATE_EXIT_OTHER) return "other_fate";
  if (sim_shared->aux[4]) return "invalid_free";
  int terminated = cr->fate == FATE_DIE || cr->fate == FATE_ABORT_FOREIGN;
  long v = sim_shared->aux[3];
  if (terminated) {
    if (mode == 'E' || mode == 'W') return "unexpected_termination";
    return NULL;
  }
  /* completed */
  if (v == VD_DIFFERENT || v == VD_DIRTY_PADDING || v == VD_ACCEPTED || v == VD_LEAK || v == VD_BADDIMS || v == VD_REF_REJECT_BUT_RETURNED) return vd_names[v];
  if (mode == 'E') return v == VD_EQUAL ? NULL : (v == VD_NULL ? "roundtrip_returned_null" : "roundtrip_failed");
  if (mode == 'R') return v == VD_NULL ? NULL : "accepted_unsupported";
  return NULL;
}

typedef struct { uint64_t children, fate[FATE_N], verdict[VD_N], viol; uint64_t hash; } tally_t;

static int run_one(const char *text, char mode, const char *errpath, tally_t *t, const char *outdir, uint64_t idx, long sub, const char *kind, int emit) {
  sbuf_t full = { 0 };
  sb_printf(&full, "# mode=%c\n%s", mode, text);
  runarg_t a = { full.s };
  child_res_t cr;
  eng_fork_run(child_run, &a, errpath, 30, &cr);
  t->children++;
  t->fate[cr.fate]++;
  long v = sim_shared->aux[3];
  if (v >= 0 && v < VD_N) t->verdict[v]++;
  if (sim_shared->aux[7] > 0 && sim_shared->aux[7] < VD_N) t->verdict[sim_shared->aux[7]]++;
  const char *vc = judge(&cr, mode);
  int code = cr.fate * 16 + (int)v;
  t->hash = fnv1a(&code, sizeof code, t->hash);
  uint64_t rh = sim_shared->result_hash;
  t->hash = fnv1a(&rh, 8, t->hash);
  if (!vc) { free(full.s); return 0; }
  if (!strcmp(vc, "SKIPPED")) { if (emit) printf("K idx=%llu kind=%s %s\n", (unsigned long long)idx, kind, sim_shared->note); free(full.s); return 0; }
  t->viol++;
  if (emit) {
    char fn[512], buf[300];
    snprintf(fn, sizeof fn, "%s/viol-%llu-%ld.prog", outdir, (unsigned long long)idx, sub);
    eng_write_file(fn, full.s);
    eng_first_line_matching(errpath, "rror", buf, sizeof buf);
    eng_find_lib_frame(errpath);
    /* attribution (DESIGN 2.9): a temporary that is not released - or released twice on a write error path - is C11's clause, everything else here is C18's */
    printf("V idx=%llu prop=%s class=%s func=%s scen=%s mode=%c file=%s detail=%s\n", (unsigned long long)idx, (!strcmp(vc, "leak") || (!strcmp(vc, "invalid_free") && mode == 'W')) ? "C11" : "C18", vc, eng_top_lib_frame[0] ? eng_top_lib_frame : "-", kind, mode, fn, buf);
  }
  free(full.s);
  return 1;
}

/* produce the bytes the library's writer emits for a header program (runs in a child, returns the file through a pipe-less trick: shared memory is small,
 * so the parent re-executes the writer in-process - it is fault free) */
static unsigned char *parent_write_png(const char *header, size_t *n) {
  ctx_t c;
  ctx_init(&c, m4sim_libs[0]);
  simfs_reset(1);
  const char *ck = strstr(header, "clock ");
  if (ck) { long long t = 0, j = 0; sscanf(ck, "clock %lld %lld", &t, &j); simclock_set(t, j); }
  prog_exec(&c, header, NULL, NULL);
  size_t len; const unsigned char *d = simfs_get("/sim/f0", &len);
  unsigned char *cp = NULL;
  if (d) { cp = (unsigned char *)malloc(len + 1); memcpy(cp, d, len); *n = len; }
  ctx_free_all(&c);
  for (int i = 0; i < m4sim_nlibs; i++) m4sim_libs[i]->m4ri_mmc_cleanup(); /* leave no state behind in the worker: children must start like a fresh process */
  return cp;
}

static const char *libname(rng_t *r) { return m4sim_libs[rng_below(r, (uint64_t)m4sim_nlibs)]->name; }

static void emit_header(sbuf_t *o, const char *plane, const char *kind, const char *lib) {
  sb_printf(o, "# m4sim engine=fs plane=%s scenario=%s lib=%s\nlib %s\n", plane, kind, lib, lib);
}

static int g_force_family = -1;
/* one run index = one case family */
static void run_case(uint64_t seed, uint64_t idx, const char *tier, const char *outdir, const char *errpath, const char *curpath) {
  rng_t root = rng_make(eng_run_seed(seed, "fs", idx));
  rng_t rg = rng_split(&root, "gen");
  int thorough = !strcmp(tier, "thorough");
  tally_t t; memset(&t, 0, sizeof t); t.hash = FNV0;
  sbuf_t sb = { 0 }, hd = { 0 };
  const char *lib = libname(&rg);
  int family = g_force_family >= 0 ? g_force_family : (int)(idx % 10);
  const char *kind = "?";
  long long clk = 1 + (long long)rng_below(&rg, 8000000000ULL) - 2100000000LL; /* 1903 .. 2156 */
  long long jump = (long long)rng_below(&rg, 3) == 0 ? (long long)rng_below(&rg, 100000) - 50000 : 0;
  switch (family) {
  case 0: case 1: { /* fault-free round trips, every compression level / comment kind; short reads are legal */
    kind = "roundtrip";
    int nr = 1 + (int)rng_below(&rg, family ? 40 : 300), nc = family ? 1 + (int)rng_below(&rg, 600) : 1 + (int)((idx / 10) % 192);
    const char *gens[] = { "rand", "zero", "id", "sparse", "rand" };
    for (int lvl = -1; lvl <= 9; lvl++) {
      sb_reset(&sb);
      emit_header(&sb, "FF", kind, lib);
      sb_printf(&sb, "clock %lld %lld\n", clk, jump);
      sb_printf(&sb, "mat 0 %d %d %s %d %llu\n", nr, nc, gens[rng_below(&rg, 5)], 16 + (int)rng_below(&rg, 200), (unsigned long long)(rng_u64(&rg) >> 1));
      sb_printf(&sb, "op to_png 0 0 %d %d\nexpect write\n", lvl, (int)rng_below(&rg, 3));
      int sr = rng_chance(&rg, 1, 2) ? 1 + (int)rng_below(&rg, 7) : 0;
      if (sr) { sb_printf(&sb, "fsfault 0 short=%d\n", sr); probes[probe_id("short_reads_roundtrip")]++; } else probe("roundtrip_plain");
      sb_printf(&sb, "op from_png 1 0\nexpect equal 0 1\nexpect balanced\n");
      eng_write_file(curpath, sb.s);
      run_one(sb.s, 'E', errpath, &t, outdir, idx, lvl + 1, kind, 1);
    }
    break;
  }
  case 2: case 3: case 4: { /* plane A: torn / flipped / EIO reads of a file the real writer produced */
    kind = family == 2 ? "torn_png" : family == 3 ? "flipped_png" : "eio_png";
    int nr = 1 + (int)rng_below(&rg, 12), nc = 1 + (int)rng_below(&rg, thorough ? 900 : 260);
    int lvl = (int)rng_below(&rg, 11) - 1;
    if (family == 2 && (idx / 10) % 4 == 3) { nr = 150 + (int)rng_below(&rg, thorough ? 250 : 60); nc = 700 + (int)rng_below(&rg, 400); } /* big file: several IDAT chunks */
    emit_header(&hd, "A", kind, lib);
    sb_printf(&hd, "clock %lld %lld\n", clk, jump);
    sb_printf(&hd, "mat 0 %d %d rand 128 %llu\n", nr, nc, (unsigned long long)(rng_u64(&rg) >> 1));
    sb_printf(&hd, "op to_png 0 0 %d %d\n", lvl, (int)rng_below(&rg, 3));
    size_t flen = 0;
    unsigned char *file = parent_write_png(hd.s, &flen);
    if (!file) { printf("K idx=%llu kind=%s writer produced no file\n", (unsigned long long)idx, kind); break; }
    if (family == 2) {
      /* small files: EVERY truncation offset; big ones: every chunk boundary -1/0/+1 and a seeded sample of the rest */
      unsigned char *want = NULL;
      if (flen > 3000) {
        want = (unsigned char *)calloc(flen + 2, 1);
        size_t p = 8;
        while (p + 12 <= flen) {
          size_t len = ((size_t)file[p] << 24) | ((size_t)file[p + 1] << 16) | ((size_t)file[p + 2] << 8) | file[p + 3];
          for (int dlt = -1; dlt <= 1; dlt++) { if (p + dlt < flen) want[p + dlt] = 1; if (p + 8 + dlt < flen) want[p + 8 + dlt] = 1; }
          if (!memcmp(file + p + 4, "IDAT", 4) && p > 100) probe("torn_between_IDAT_chunks");
          p += 12 + len;
        }
        for (int q = 0; q < (thorough ? 500 : 150); q++) want[rng_below(&rg, flen)] = 1;
      }
      for (size_t off = 0; off < flen; off++) {
        if (want && !want[off]) continue;
        int fld; const char *reg = png_region(file, flen, off, &fld);
        char pn[40]; snprintf(pn, sizeof pn, "torn_in_%s", reg); probe(pn);
        if (fld == 0 && off >= 8) { int f2; png_region(file, flen, off - 1, &f2); if (f2 == 3 || off == 8) probe("torn_at_chunk_boundary"); }
        sb_reset(&sb);
        /* a proper prefix of a PNG file is a truncated file: the property wants it rejected (NULL or termination), not
         * merely read safely - also when every pixel row was already delivered and only the end of the stream is missing */
        sb_printf(&sb, "%sfsfault 0 eof_at=%zu short=%d\nop from_png 1 0\nexpect rejected 1\n", hd.s, off, (int)rng_below(&rg, 8));
        if (off == 0) eng_write_file(curpath, sb.s);
        if (off + 12 >= flen) probe("torn_after_last_IDAT");
        run_one(sb.s, 'R', errpath, &t, outdir, idx, (long)off, kind, 1);
      }
      free(want);
    } else if (family == 3) {
      size_t nflips = flen * 8;
      size_t cap = thorough ? 6000 : 1200;
      for (size_t k = 0; k < nflips && k < cap; k++) {
        size_t bitpos = nflips <= cap ? k : (size_t)rng_below(&rg, nflips);
        int fld; const char *reg = png_region(file, flen, bitpos / 8, &fld);
        probe(!strcmp(reg, "signature") ? "flip_in_signature" : fld == 0 ? "flip_in_length" : fld == 1 ? "flip_in_type" : fld == 2 ? "flip_in_data" : "flip_in_crc");
        sb_reset(&sb);
        sb_printf(&sb, "%sflip 0 %zu %zu\nop from_png 1 0\nexpect equal_or_null 0 1\n", hd.s, bitpos / 8, bitpos % 8);
        if (k == 0) eng_write_file(curpath, sb.s);
        run_one(sb.s, 'A', errpath, &t, outdir, idx, (long)bitpos, kind, 1);
      }
    } else {
      size_t n = thorough ? 120 : 40;
      for (size_t k = 0; k < n; k++) {
        size_t off = (size_t)rng_below(&rg, flen);
        probe("eio_on_png_read");
        sb_reset(&sb);
        sb_printf(&sb, "%sfsfault 0 eio_at=%zu short=%d\nop from_png 1 0\nexpect equal_or_null 0 1\n", hd.s, off, (int)rng_below(&rg, 8));
        if (k == 0) eng_write_file(curpath, sb.s);
        run_one(sb.s, 'A', errpath, &t, outdir, idx, (long)off, kind, 1);
      }
    }
    free(file);
    break;
  }
  case 5: case 6: { /* plane B: foreign writers, every valid bit depth x colour type x interlace */
    kind = "foreign_png";
    static const int combos[][2] = { {1,0},{2,0},{4,0},{8,0},{16,0}, {8,4},{16,4}, {1,3},{2,3},{4,3},{8,3}, {8,2},{16,2}, {8,6},{16,6} };
    for (int ci = 0; ci < 15; ci++)
      for (int il = 0; il < 2; il++) {
        int dp = combos[ci][0], ct = combos[ci][1];
        int w = 1 + (int)rng_below(&rg, family == 5 ? 40 : 400), h = 1 + (int)rng_below(&rg, 6);
        if (rng_chance(&rg, 1, 3)) w = 8 * (1 + (int)rng_below(&rg, 20)); /* widths where n/8+1 is tight */
        char pn[32]; snprintf(pn, sizeof pn, "foreign_depth%d", dp); probe(pn);
        probe(ct == 0 ? "foreign_gray" : ct == 3 ? "foreign_palette" : ct == 2 ? "foreign_rgb" : ct == 6 ? "foreign_rgba" : "foreign_gray_alpha");
        if (il) probe("foreign_interlaced");
        sb_reset(&sb);
        emit_header(&sb, "B", kind, lib);
        sb_printf(&sb, "pngfile 0 %d %d %d %d %d %llu\n", w, h, dp, ct, il, (unsigned long long)(rng_u64(&rg) >> 1));
        int sr = (int)rng_below(&rg, 8);
        if (sr) sb_printf(&sb, "fsfault 0 short=%d\n", sr);
        sb_printf(&sb, "op from_png 1 0\n");
        char mode;
        if (dp == 1 && ct == 0 && !il) { sb_printf(&sb, "expect foreign1bit 1\n"); mode = 'E'; }
        else if (dp == 1 && ct == 3 && !il) { sb_printf(&sb, "expect balanced\n"); mode = 'W'; } /* supported; palette meaning is the writer's business: only safety is judged */
        else { sb_printf(&sb, "expect rejected 1\n"); mode = 'R'; }
        eng_write_file(curpath, sb.s);
        run_one(sb.s, mode, errpath, &t, outdir, idx, ci * 2 + il, kind, 1);
      }
    break;
  }
  case 7: case 8: { /* JCF: valid, single-token corruptions, torn, EIO - all judged against the reference reader */
    kind = "jcf";
    int m = 1 + (int)rng_below(&rg, 40), n = 1 + (int)rng_below(&rg, 150);
    /* build a valid text */
    sbuf_t tx = { 0 };
    int nnz = 0;
    sbuf_t body = { 0 };
    int firstpos = -1;
    (void)firstpos;
    for (int i = 0; i < m; i++) {
      int k = 1 + (int)rng_below(&rg, 6);
      for (int q = 0; q < k; q++) { long j = 1 + (long)rng_below(&rg, (uint64_t)n); sb_printf(&body, "%ld\n", q == 0 ? -j : j); nnz++; }
    }
    sb_printf(&tx, "%d %d 2\n%d\n\n%s", m, n, nnz, body.s);
    /* the variants */
    const char *classes[] = { "jcf_valid", "jcf_index0", "jcf_positive_first", "jcf_index_too_large", "jcf_too_many_rows", "jcf_bad_modulus", "jcf_short_header", "jcf_negative_dims", "jcf_huge_dims", "jcf_torn", "jcf_eio", "jcf_garbage_token", "jcf_long_min" };
    for (int cl = 0; cl < 13; cl++) {
      int reps = (cl == 9) ? (thorough ? 60 : 20) : (cl == 10 ? 6 : 1);
      for (int rep = 0; rep < reps; rep++) {
        sbuf_t v = { 0 };
        long cut = -1; int ioerr = 0; char mode = 'A';
        sbuf_t extra = { 0 };
        sb_printf(&extra, "%s", "");
        switch (cl) {
        case 0: sb_printf(&v, "%s", tx.s); mode = 'E'; break;
        case 1: sb_printf(&v, "%d %d 2\n%d\n\n-1\n0\n%s", m, n, nnz + 2, body.s); break;
        case 2: sb_printf(&v, "%d %d 2\n%d\n\n%ld\n%s", m, n, nnz + 1, 1 + (long)rng_below(&rg, (uint64_t)n), body.s); break;
        case 3: { /* index beyond ncols: just beyond, or huge (also values that are valid modulo 2^32, modulo 2^31, ...) */
          long big[] = { 4294967296L, -4294967296L, 8589934592L, 2147483648L, 1099511627776L, 4294967296L * 3 };
          long tok = (long)n + 1 + (long)rng_below(&rg, 70);
          if (rng_chance(&rg, 1, 2)) { long bb = big[rng_below(&rg, 6)]; long vv = 1 + (long)rng_below(&rg, (uint64_t)n); tok = bb > 0 ? bb + vv : bb - vv; }
          if (tok < 0) sb_printf(&v, "%d %d 2\n%d\n\n%ld\n", m, n, 1, tok); /* a negative entry opens a row: make it the only one */
          else sb_printf(&v, "%s%ld\n", tx.s, tok);
          break;
        }
        case 4: sb_printf(&v, "%s-1\n", tx.s); break;
        case 5: sb_printf(&v, "%d %d %d\n%d\n\n%s", m, n, 3 + (int)rng_below(&rg, 5), nnz, body.s); break;
        case 6: { const char *hs[] = { "", "12", "12 13", "12 13 2", "x y z", "12 13 2 q" }; sb_printf(&v, "%s", hs[rng_below(&rg, 6)]); break; }
        case 7: { int wch = (int)rng_below(&rg, 3); sb_printf(&v, "%d %d 2\n%d\n\n%s", wch != 1 ? -m : m, wch != 0 ? -n : n, nnz, body.s); break; }
        case 8:
          if (rng_chance(&rg, 1, 2)) sb_printf(&v, "%d %d 2\n%d\n\n%s", 30000 + (int)rng_below(&rg, 10000), 30000 + (int)rng_below(&rg, 10000), nnz, body.s);
          else { /* dimensions whose number of words is a multiple of 2^32, or just above one: an allocation size computed in 32 bits comes out as 0 or tiny */
            long hd[][2] = { { 524288, 524288 }, { 1048576, 262144 }, { 262144, 1048576 }, { 2097152, 131072 }, { 1048577, 262144 }, { 524289, 524288 } };
            int w = (int)rng_below(&rg, 6);
            sb_printf(&v, "%ld %ld 2\n%d\n\n-1\n-%ld\n-7\n", hd[w][0], hd[w][1], 3, hd[w][1]);
          }
          break;
        case 9: sb_printf(&v, "%s", tx.s); cut = (long)rng_below(&rg, tx.n + 1); break;
        case 10: sb_printf(&v, "%s", tx.s); cut = (long)rng_below(&rg, tx.n + 1); ioerr = 1; break;
        case 11: { /* corrupted data: something that is not a number among the entries (the rest of the file is valid) */
          const char *junk[] = { "xyz", "1.5e", "--3", "0x", "#", "\\" };
          size_t half = body.n / 2; while (half < body.n && body.s[half] != '\n') half++;
          sb_printf(&v, "%d %d 2\n%d\n\n%.*s\n%s\n%s", m, n, nnz, (int)half, body.s, junk[rng_below(&rg, 6)], half < body.n ? body.s + half + 1 : "");
          break;
        }
        case 12: sb_printf(&v, "%d %d 2\n%d\n\n%s\n", m, n, 1, rng_chance(&rg, 1, 2) ? "-9223372036854775808" : "-9223372036854775807"); break;
        }
        probe(classes[cl]);
        /* the file is written through an escaped rawfile line when short, else through a helper file line per 400 bytes: keep it simple: split */
        sb_reset(&sb);
        emit_header(&sb, cl == 0 ? "FF" : "B", classes[cl], lib);
        /* long texts: several rawfile lines appending */
        {
          size_t pos = 0;
          int first = 1;
          while (pos < v.n || first) {
            size_t chunk = v.n - pos > 150 ? 150 : v.n - pos;
            sb_printf(&sb, "%s 0 ", first ? "rawfile" : "rawappend");
            for (size_t q = 0; q < chunk; q++) { char ch = v.s[pos + q]; if (ch == '\n') sb_printf(&sb, "\\n"); else sb_printf(&sb, "%c", ch); }
            sb_printf(&sb, "\n");
            pos += chunk; first = 0;
          }
        }
        if (cut >= 0) {
          if (ioerr) sb_printf(&sb, "fsfault 0 eio_at=%ld short=%d\nioerr\ncut %ld\n", cut, (int)rng_below(&rg, 8), cut);
          else sb_printf(&sb, "fsfault 0 eof_at=%ld short=%d\ncut %ld\n", cut, (int)rng_below(&rg, 8), cut);
        } else if (rng_chance(&rg, 1, 2)) sb_printf(&sb, "fsfault 0 short=%d\n", 1 + (int)rng_below(&rg, 7));
        sb_printf(&sb, "op from_jcf 1 0\nexpect jcfref 1 0\n");
        eng_write_file(curpath, sb.s);
        run_one(sb.s, mode, errpath, &t, outdir, idx, cl * 100 + rep, classes[cl], 1);
        free(v.s); free(extra.s);
      }
    }
    free(tx.s); free(body.s);
    for (int k = 0; k < 4; k++) {
      unsigned long long sd = (unsigned long long)(rng_u64(&rg) >> 1);
      sb_reset(&sb);
      emit_header(&sb, "FF", "from_str", lib);
      sb_printf(&sb, "op from_str 1 %d %d %llu\nexpect str 1 %llu\n", 1 + (int)rng_below(&rg, 70), 1 + (int)rng_below(&rg, 200), sd, sd);
      probe("from_str");
      run_one(sb.s, 'E', errpath, &t, outdir, idx, 5000 + k, "from_str", 1);
    }
    /* from_str against the obvious model: from_str op + to/from comparisons are in ops (hash equality with harness fill) */
    break;
  }
  default: { /* plane C: write side faults */
    kind = "write_faults";
    int nr = 1 + (int)rng_below(&rg, 250), nc = 1 + (int)rng_below(&rg, 2000);
    emit_header(&hd, "C", kind, lib);
    sb_printf(&hd, "clock %lld %lld\n", clk, jump);
    sb_printf(&hd, "mat 0 %d %d rand 128 %llu\n", nr, nc, (unsigned long long)(rng_u64(&rg) >> 1));
    int lvl = rng_chance(&rg, 1, 2) ? 0 : (int)rng_below(&rg, 10);
    size_t flen = 0;
    sbuf_t h2 = { 0 };
    sb_printf(&h2, "%sop to_png 0 0 %d 2\n", hd.s, lvl);
    unsigned char *file = parent_write_png(h2.s, &flen);
    free(file);
    if (rng_chance(&rg, 1, 2)) { /* look for a shape whose file ends just behind a multiple of the stdio buffer size: the flush that meets the full
                                    device then happens while libpng writes the trailer (png_write_end), after the rows and their buffer are done with */
      for (int tries = 0; tries < 80; tries++) {
        int r2 = 1 + (int)rng_below(&rg, 250), c2 = 1 + (int)rng_below(&rg, 2000), l2 = rng_chance(&rg, 1, 2) ? 0 : (int)rng_below(&rg, 10);
        unsigned long long s2 = (unsigned long long)(rng_u64(&rg) >> 1);
        sbuf_t hh = { 0 }, h3 = { 0 };
        emit_header(&hh, "C", kind, lib);
        sb_printf(&hh, "clock %lld %lld\nmat 0 %d %d rand 128 %llu\n", clk, jump, r2, c2, s2);
        sb_printf(&h3, "%sop to_png 0 0 %d 2\n", hh.s, l2);
        size_t fl2 = 0;
        unsigned char *f2 = parent_write_png(h3.s, &fl2);
        free(f2); free(h3.s);
        if (fl2 > 4096 && fl2 % 4096 >= 1 && fl2 % 4096 <= 12) { sb_reset(&hd); sb_printf(&hd, "%s", hh.s); flen = fl2; lvl = l2; free(hh.s); probe("write_trailer_on_buffer_boundary"); break; }
        free(hh.s);
      }
    }
    int n = thorough ? 60 : 16;
    for (int k = 0; k < n; k++) {
      sb_reset(&sb);
      sb_printf(&sb, "%s", hd.s);
      int which = k < 2 ? k + 1 : 0;
      if (which == 1) { sb_printf(&sb, "fsfault 0 open_errno=%d\n", rng_chance(&rg, 1, 2) ? EACCES : EMFILE); probe("write_open_fail"); }
      else if (which == 2) { sb_printf(&sb, "fsfault 0 close_fails=1\n"); probe("write_close_fail"); }
      else {
        /* where the device fills up: anywhere, but every third time within the last stdio buffer's worth of the file (the error then
           surfaces in png_write_end or fclose, after the rows were written) and every fifth time within the first bytes */
        size_t at = (size_t)rng_below(&rg, flen + 1);
        if (k % 3 == 2) { size_t tail = flen < 4096 ? flen : 4096; at = flen - (size_t)rng_below(&rg, tail + 1); }
        else if (k % 5 == 4) at = (size_t)rng_below(&rg, flen < 64 ? flen + 1 : 64);
        int unbuf = k % 2; /* every second fault meets an unbuffered stream: the error surfaces in exactly the library call that writes byte `at` */
        if (unbuf && k % 3 == 2) at = flen - (size_t)rng_below(&rg, flen < 40 ? flen + 1 : 40); /* ... e.g. in the trailer written by png_write_end */
        sb_printf(&sb, "fsfault 0 write_fail_at=%zu%s\n", at, unbuf ? " unbuffered=1" : ""); probe("write_enospc"); if (unbuf) probe("write_unbuffered");
      }
      sb_printf(&sb, "op to_png 0 0 %d 2\nexpect write\nexpect balanced\n", lvl);
      eng_write_file(curpath, sb.s);
      run_one(sb.s, 'W', errpath, &t, outdir, idx, k, kind, 1);
    }
    free(h2.s);
    break;
  }
  }
  printf("R idx=%llu scen=%s lib=%s children=%llu viol=%llu hash=%016llx fates=", (unsigned long long)idx, kind, lib, (unsigned long long)t.children, (unsigned long long)t.viol, (unsigned long long)t.hash);
  for (int i = 0; i < FATE_N; i++) printf("%s%s:%llu", i ? "," : "", fate_names[i], (unsigned long long)t.fate[i]);
  printf(" verdicts=");
  for (int i = 0; i < VD_N; i++) printf("%s%s:%llu", i ? "," : "", vd_names[i], (unsigned long long)t.verdict[i]);
  printf("\n");
  fflush(stdout);
  free(sb.s); free(hd.s);
}

static int cmd_worker(int argc, char **argv) {
  if (argc < 7) return 2;
  uint64_t seed = strtoull(argv[2], NULL, 10), first = strtoull(argv[3], NULL, 10), count = strtoull(argv[4], NULL, 10);
  const char *tier = argv[5], *outdir = argv[6];
  double budget = argc > 7 ? atof(argv[7]) : 1e9, t0 = eng_now();
  if (argc > 8 && !strcmp(argv[8], "writeonly")) g_force_family = 9; /* only the write-side fault plane (used by the C11 check: temporaries released on error paths) */
  char errpath[512], cur[512];
  snprintf(errpath, sizeof errpath, "%s/stderr-%llu.txt", outdir, (unsigned long long)first);
  snprintf(cur, sizeof cur, "%s/cur-%llu.prog", outdir, (unsigned long long)first);
  for (uint64_t idx = first; idx < first + count; idx++) {
    if (eng_now() - t0 > budget) { printf("B idx=%llu budget exhausted\n", (unsigned long long)idx); break; }
    run_case(seed, idx, tier, outdir, errpath, cur);
  }
  printf("T forks=%llu", (unsigned long long)eng_forks);
  for (int i = 0; i < NPROBE; i++) printf(" p.%s=%llu", probe_names[i], (unsigned long long)probes[i]);
  printf("\n");
  return 0;
}

static int cmd_exec(int argc, char **argv) {
  if (argc < 3) return 2;
  char *text = eng_read_file(argv[2], NULL);
  if (!text) return 2;
  char errpath[512];
  snprintf(errpath, sizeof errpath, "%s.stderr", argv[2]);
  /* mode: from the expect lines */
  char mode = 'A';
  if (strstr(text, "expect rejected")) mode = 'R';
  else if (strstr(text, "plane=FF") || strstr(text, "expect foreign1bit")) mode = 'E';
  else if (strstr(text, "plane=C") || (strstr(text, "expect balanced") && !strstr(text, "expect equal"))) mode = 'W';
  const char *mm = strstr(text, "# mode=");
  if (mm) mode = mm[7];
  runarg_t a = { text };
  child_res_t cr;
  eng_fork_run(child_run, &a, errpath, 30, &cr);
  const char *vc = judge(&cr, mode);
  char buf[300];
  eng_first_line_matching(errpath, "rror", buf, sizeof buf);
  eng_find_lib_frame(errpath);
  long v = sim_shared->aux[3];
  printf("X class=%s fate=%s verdict=%s func=%s mode=%c hash=%016llx detail=%s\n", vc ? vc : "ok", fate_names[cr.fate], v >= 0 && v < VD_N ? vd_names[v] : "?", eng_top_lib_frame[0] ? eng_top_lib_frame : "-", mode,
         (unsigned long long)sim_shared->result_hash, buf);
  if (!getenv("M4SIM_KEEP_STDERR")) unlink(errpath);
  return 0;
}

int main(int argc, char **argv) {
  setvbuf(stdout, NULL, _IOLBF, 0);
  sim_shared_init();
  if (argc >= 2 && !strcmp(argv[1], "worker")) return cmd_worker(argc, argv);
  if (argc >= 2 && !strcmp(argv[1], "exec")) return cmd_exec(argc, argv);
  fprintf(stderr, "usage: fs worker SEED FIRST COUNT TIER OUTDIR [BUDGET_S] | fs exec FILE\n");
  return 2;
}
