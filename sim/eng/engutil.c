#define _GNU_SOURCE
#include "engutil.h"
#include <fcntl.h>
#include <signal.h>
#include <stdlib.h>
#include <sys/time.h>
#include <sys/wait.h>
#include <time.h>
#include <unistd.h>

uint64_t eng_forks;
#ifdef M4SIM_COV
extern void __gcov_dump(void);
#endif

int eng_fork_run(void (*fn)(void *), void *ud, const char *stderr_path, int timeout_s, child_res_t *res) {
  fflush(stdout);
  fflush(stderr);
  sim_shared_init();
  shared_page_t *sp = sim_shared;
  memset((void *)sp, 0, sizeof *sp);
  sp->operands_intact = -1;
  ((char *)SIM_SHARED_EXT)[200000] = 0; /* engine note area (e.g. call chain of a leaked block) */
  eng_forks++;
  pid_t pid = fork();
  if (pid < 0) return -1;
  if (pid == 0) {
    int fd = open(stderr_path, O_WRONLY | O_CREAT | O_TRUNC, 0600);
    if (fd >= 0) { dup2(fd, 2); close(fd); }
    int nul = open("/dev/null", O_WRONLY);
    if (nul >= 0) { dup2(nul, 1); close(nul); }
    /* the run's time limit is CPU time of the child (independent of machine load); the wall-clock alarm, ten times larger,
       only catches a child that sleeps */
    signal(SIGALRM, SIG_DFL);
    signal(SIGVTALRM, SIG_DFL);
    { const char *sf = getenv("M4SIM_SLOW_FACTOR"); if (sf && atoi(sf) > 1) timeout_s *= atoi(sf); } /* under valgrind etc. */
    struct itimerval itv = { { 0, 0 }, { timeout_s, 0 } };
    setitimer(ITIMER_VIRTUAL, &itv, NULL);
    alarm((unsigned)timeout_s * 10u);
    simlog_reset();     /* the run's event log starts here: nothing of the worker's earlier runs may enter it */
    heap_log_rebase();
    fn(ud);
    fflush(stderr);
#ifdef M4SIM_COV
    __gcov_dump(); /* coverage builds only (sim/cov.py): _exit would lose the counters */
#endif
    _exit(0);
  }
  int st = 0;
  while (waitpid(pid, &st, 0) < 0) {}
  res->status = st;
  res->fate = fate_classify(st);
  res->stderr_bytes = sp->stderr_bytes;
  return 0;
}
void eng_write_file(const char *path, const char *text) {
  FILE *f = fopen(path, "w");
  if (!f) return;
  fputs(text, f);
  fclose(f);
}
char *eng_read_file(const char *path, size_t *n) {
  FILE *f = fopen(path, "rb");
  if (!f) return NULL;
  fseek(f, 0, SEEK_END);
  long sz = ftell(f);
  fseek(f, 0, SEEK_SET);
  char *b = (char *)malloc((size_t)sz + 1);
  size_t got = fread(b, 1, (size_t)sz, f);
  b[got] = 0;
  fclose(f);
  if (n) *n = got;
  return b;
}
uint64_t eng_run_seed(uint64_t seed, const char *engine, uint64_t idx) {
  return sm64_mix(sm64_mix(seed ^ fnv1a(engine, strlen(engine), FNV0)) + idx * 0x9e3779b97f4a7c15ULL);
}
const char *eng_first_line_matching(const char *path, const char *needle, char *buf, size_t bufsz) {
  FILE *f = fopen(path, "r");
  buf[0] = 0;
  if (!f) return buf;
  char line[512];
  int first = 1;
  while (fgets(line, sizeof line, f)) {
    if (first) { /* fall back to the first line of the file */
      size_t l = strlen(line);
      while (l && (line[l - 1] == '\n' || line[l - 1] == '\r')) line[--l] = 0;
      snprintf(buf, bufsz, "%s", line);
      first = 0;
    }
    if (strstr(line, needle)) {
      size_t l = strlen(line);
      while (l && (line[l - 1] == '\n' || line[l - 1] == '\r')) line[--l] = 0;
      snprintf(buf, bufsz, "%s", line);
      break;
    }
  }
  fclose(f);
  return buf;
}
double eng_now(void) {
  struct timespec ts;
  clock_gettime(CLOCK_MONOTONIC, &ts);
  return (double)ts.tv_sec + 1e-9 * (double)ts.tv_nsec;
}

char eng_top_lib_frame[128];
void eng_find_lib_frame(const char *errpath) { /* first stack frame inside library code of a sanitizer report */
  eng_top_lib_frame[0] = 0;
  FILE *f = fopen(errpath, "r");
  if (!f) return;
  char line[600];
  while (fgets(line, sizeof line, f)) {
    char fnm[128];
    if (strstr(line, "/inc/m4ri/") && sscanf(line, " #%*d 0x%*x in %127s", fnm) == 1) { snprintf(eng_top_lib_frame, sizeof eng_top_lib_frame, "%s", fnm); break; }
  }
  fclose(f);
}
