/* Engine `cfg` (C12): configuration / tuning-knob swarm.  Several build variants
 * of the library ({sse2,no-sse2} x {caches,thread-safe} x {sequential,OpenMP},
 * each with run-time cache-size knobs) are linked side by side with the
 * reference (the shipped default configuration with literal cache sizes, k = 0,
 * cutoff = 0).  The canonical outputs the property lists must be bit-identical
 * for every (variant, L1/L2/L3, k, cutoff, route).  OpenMP variants run on the
 * simulated runtime with a seeded team size.  Purely differential.  DESIGN C12. */
#define _GNU_SOURCE
#include "parcommon.h"
#include <math.h>
#include <unistd.h>
#include <sys/time.h>
#include <time.h>

typedef struct { uint64_t h[3]; long s[2]; } canon_t;
static int canon_eq(const canon_t *a, const canon_t *b) { return !memcmp(a, b, sizeof *a); }

typedef struct {
  uint64_t runs, configs, fam[12], variant_use[16], probes[16];
} ccov_t;
static ccov_t *cov;
enum { Q_PLE_RECURSIVE, Q_STRASSEN_RECURSED, Q_M4RM_MULTIBLOCK, Q_TRSM_RECURSIVE, Q_TRTRI_RECURSIVE, Q_MMC_BYPASS, Q_NOSSE, Q_OMP, Q_K_CLAUSE, Q_SMALL_L1_STRIPS, Q_XVAL_PAIRS, Q_XVAL_KNOB_EFFECT, Q_NQ };
static const char *q_names[Q_NQ] = { "ple_recursive_regime", "strassen_recursed", "m4rm_more_than_one_block", "trsm_recursive_regime", "trtri_recursive_regime", "block_above_cache_threshold",
                                     "no_sse2_variant", "openmp_variant_on_simulated_runtime", "k_reduced_by_cache_clause", "column_permutation_in_several_strips", "xval_knob_vs_constant_pairs", "xval_cache_sizes_changed_the_allocation_pattern" };

static const lib_t *REF;
#define MAXREG 4
static mzd_t *opnd[MAXREG]; /* operands as created by the reference library (read-only templates) */

static mzd_t *mdup(const lib_t *L, const mzd_t *M) { /* bit copy into an object owned by library L */
  if (!M) return NULL;
  mzd_t *N = L->mzd_init(M->nrows, M->ncols);
  for (rci_t i = 0; i < M->nrows; i++) memcpy(mzd_row(N, i), mzd_row_const(M, i), (size_t)M->width * 8);
  return N;
}
static void bits_L_U(const lib_t *L, const mzd_t *F, rci_t r, mzd_t **Lo, mzd_t **Uo) {
  rci_t m = F->nrows, n = F->ncols;
  mzd_t *Lm = L->mzd_init(m, m), *U = L->mzd_init(m, n);
  for (rci_t i = 0; i < r; i++) {
    for (rci_t j = 0; j < i; j++) if (mzd_read_bit(F, i, j)) mzd_write_bit(Lm, i, j, 1);
    for (rci_t j = i + 1; j < n; j++) if (mzd_read_bit(F, i, j)) mzd_write_bit(U, i, j, 1);
    mzd_write_bit(Lm, i, i, 1); mzd_write_bit(U, i, i, 1);
  }
  for (rci_t i = r; i < m; i++) for (rci_t j = 0; j < r; j++) if (mzd_read_bit(F, i, j)) mzd_write_bit(Lm, i, j, 1);
  *Lo = Lm; *Uo = U;
}
/* P*L*U*Q (resp. P*L*E) rebuilt with the REFERENCE library's arithmetic from factors computed by any variant */
static uint64_t reconstruct(const mzd_t *F, rci_t r, const mzp_t *P, const mzp_t *Q, int is_ple) {
  mzd_t *Fc = mdup(REF, F);
  mzp_t *Pr = REF->mzp_init(P->length), *Qr = REF->mzp_init(Q->length);
  memcpy(Pr->values, P->values, (size_t)P->length * 4); memcpy(Qr->values, Q->values, (size_t)Q->length * 4);
  if (is_ple) REF->mzd_apply_p_right_trans_tri(Fc, Qr);
  mzd_t *Lm, *U;
  bits_L_U(REF, Fc, r, &Lm, &U);
  mzd_t *LU = REF->mzd_mul(NULL, Lm, U, 0);
  REF->mzd_apply_p_left_trans(LU, Pr);
  REF->mzd_apply_p_right(LU, Qr);
  uint64_t h = mat_hash(LU, FNV0);
  REF->mzd_free(LU); REF->mzd_free(Lm); REF->mzd_free(U); REF->mzd_free(Fc); REF->mzp_free(Pr); REF->mzp_free(Qr);
  return h;
}
static int perm_ok(const mzp_t *P) { for (rci_t i = 0; i < P->length; i++) if (P->values[i] < i || P->values[i] >= P->length) return 0; return 1; }

/* CPU-time limit of the child, re-armed around single evaluations: a varied configuration gets 60 times the CPU time the shipped
 * configuration needed for the same call (at least 4 s), so that a configuration-dependent hang costs seconds, not the whole run limit */
static void cpu_limit(double seconds) {
  struct itimerval itv = { { 0, 0 }, { (time_t)seconds, (suseconds_t)((seconds - (double)(time_t)seconds) * 1e6) } };
  setitimer(ITIMER_VIRTUAL, &itv, NULL);
}
static double cpu_now(void) { struct timespec ts; clock_gettime(CLOCK_PROCESS_CPUTIME_ID, &ts); return (double)ts.tv_sec + 1e-9 * (double)ts.tv_nsec; }
/* one evaluation of a family under library L with parameters; route selects the algorithm */
static int eval_family(const char *fam, const lib_t *L, int route, int k, int cutoff, int full, canon_t *out) {
  memset(out, 0, sizeof *out);
  if (!strcmp(fam, "product") || !strcmp(fam, "accumulate")) {
    int acc = fam[0] == 'a';
    mzd_t *A = mdup(L, opnd[1]), *B = mdup(L, opnd[2]), *C = acc ? mdup(L, opnd[0]) : NULL;
    int sq = (opnd[1] == opnd[2]);
    if (sq) { L->mzd_free(B); B = A; }
    switch (route) {
    case 0: C = acc ? L->mzd_addmul(C, A, B, cutoff) : L->mzd_mul(C, A, B, cutoff); break;
    case 1: C = acc ? L->mzd_addmul_m4rm(C, A, B, k > 8 ? 8 : k) : L->mzd_mul_m4rm(C, A, B, k > 8 ? 8 : k); break;
    case 2: if (acc) C = L->mzd_addmul_naive(C, A, B); else C = L->mzd_mul_naive(C, A, B); break;
    case 3: if (!L->mzd_mul_mp) { C = acc ? L->mzd_addmul(C, A, B, cutoff) : L->mzd_mul(C, A, B, cutoff); } else C = acc ? L->mzd_addmul_mp(C, A, B, cutoff) : L->mzd_mul_mp(C, A, B, cutoff); break;
    default: { /* supplied, dirty destination for the overwriting routes */
      if (!acc) { C = L->mzd_init(A->nrows, B->ncols); gen_fill(C, "rand", 128, 99); C = L->mzd_mul(C, A, B, cutoff); }
      else C = L->mzd_addmul(C, A, B, cutoff);
    }
    }
    out->h[0] = mat_hash(C, FNV0);
    out->s[0] = mat_padding_dirty(C);
    L->mzd_free(C); if (!sq) L->mzd_free(B); L->mzd_free(A);
    return 0;
  }
  if (!strcmp(fam, "echelon")) {
    mzd_t *A = mdup(L, opnd[0]);
    rci_t r;
    switch (route) {
    case 0: r = L->mzd_echelonize_m4ri(A, full, k > 10 ? 10 : k); break;
    case 1: r = L->mzd_echelonize_pluq(A, full); break;
    case 2: r = L->mzd_echelonize(A, full); break;
    default: r = A->nrows <= 600 ? L->mzd_echelonize_naive(A, full) : L->mzd_echelonize_m4ri(A, full, 0); break;
    }
    if (!full) L->mzd_top_echelonize_m4ri(A, k > 10 ? 10 : k); /* completes a row echelon form to the RREF */
    out->s[0] = r;
    out->h[0] = mat_hash(A, FNV0);
    out->s[1] = mat_padding_dirty(A);
    L->mzd_free(A);
    return 0;
  }
  if (!strcmp(fam, "inverse")) {
    mzd_t *A = mdup(L, opnd[0]);
    mzd_t *I = NULL, *R;
    if (route == 0) R = L->mzd_inv_m4ri(NULL, A, k > 10 ? 10 : k);
    else { I = L->mzd_init(A->nrows, A->ncols); L->mzd_set_ui(I, 1); R = L->mzd_invert_naive(NULL, A, I); }
    out->h[0] = mat_hash(R, FNV0);
    if (R) L->mzd_free(R);
    if (I) L->mzd_free(I);
    L->mzd_free(A);
    return 0;
  }
  if (!strncmp(fam, "trsm_", 5)) {
    mzd_t *T = mdup(L, opnd[0]), *B = mdup(L, opnd[1]);
    if (!strcmp(fam, "trsm_ul")) L->mzd_trsm_upper_left(T, B, cutoff);
    else if (!strcmp(fam, "trsm_ll")) L->mzd_trsm_lower_left(T, B, cutoff);
    else if (!strcmp(fam, "trsm_ur")) L->mzd_trsm_upper_right(T, B, cutoff);
    else L->mzd_trsm_lower_right(T, B, cutoff);
    out->h[0] = mat_hash(B, FNV0);
    out->h[1] = mat_hash(T, FNV0);
    L->mzd_free(T); L->mzd_free(B);
    return 0;
  }
  if (!strcmp(fam, "trtri")) {
    mzd_t *A = mdup(L, opnd[0]);
    L->mzd_trtri_upper(A);
    out->h[0] = mat_hash(A, FNV0);
    L->mzd_free(A);
    return 0;
  }
  if (!strcmp(fam, "solve")) {
    mzd_t *A = mdup(L, opnd[0]), *B = mdup(L, opnd[1]);
    int v;
    if (route == 0) v = L->mzd_solve_left(A, B, cutoff, 1);
    else {
      mzp_t *P = L->mzp_init(A->nrows), *Q = L->mzp_init(A->ncols);
      rci_t r = L->mzd_pluq(A, P, Q, cutoff);
      v = L->mzd_pluq_solve_left(A, r, P, Q, B, cutoff, 1);
      L->mzp_free(P); L->mzp_free(Q);
    }
    out->s[0] = v;
    if (v == 0) { /* X is not unique for rank deficient A: compare through A*X computed by the reference */
      mzd_t *Ar = mdup(REF, opnd[0]);
      mzd_t *X = REF->mzd_init(Ar->ncols, B->ncols);
      for (rci_t i = 0; i < X->nrows; i++) memcpy(mzd_row(X, i), mzd_row_const(B, i), (size_t)B->width * 8);
      mzd_t *AX = REF->mzd_mul(NULL, Ar, X, 0);
      out->h[0] = mat_hash(AX, FNV0);
      REF->mzd_free(AX); REF->mzd_free(X); REF->mzd_free(Ar);
    }
    L->mzd_free(A); L->mzd_free(B);
    return 0;
  }
  if (!strcmp(fam, "pluq") || !strcmp(fam, "ple")) {
    int is_ple = fam[2] == 'e';
    mzd_t *A = mdup(L, opnd[0]);
    mzp_t *P = L->mzp_init(A->nrows), *Q = L->mzp_init(A->ncols);
    gen_perm(P, "junk", 5, 0); gen_perm(Q, "junk", 6, 0);
    rci_t r;
    switch (route) {
    case 0: r = is_ple ? L->mzd_ple(A, P, Q, cutoff) : L->mzd_pluq(A, P, Q, cutoff); break;
    case 1: r = is_ple ? L->_mzd_ple_russian(A, P, Q, k > 8 ? 8 : k) : L->_mzd_pluq_russian(A, P, Q, k > 8 ? 8 : k); break;
    default: r = A->nrows <= 500 ? (is_ple ? L->_mzd_ple_naive(A, P, Q) : L->_mzd_pluq_naive(A, P, Q)) : (is_ple ? L->mzd_ple(A, P, Q, 0) : L->mzd_pluq(A, P, Q, 0)); break;
    }
    out->s[0] = r;
    if (!perm_ok(P) || !perm_ok(Q)) out->s[1] = 1; /* not in LAPACK form: cannot be applied */
    else out->h[0] = reconstruct(A, r, P, Q, is_ple);
    L->mzp_free(P); L->mzp_free(Q); L->mzd_free(A);
    return 0;
  }
  return -1;
}

typedef struct { const char *text; } runarg_t;
static int viol;
static char vnote[240];

static void child_run(void *ud) {
  runarg_t *a = (runarg_t *)ud;
  cov = (ccov_t *)SIM_SHARED_EXT;
  REF = lib_by_name("ref");
  if (!REF) { sim_shared->aux[1] = 1; return; }
  heap_config(fnv1a(a->text, strlen(a->text), FNV0), FILL_A5, RECYCLE_OFF, 0); /* uninitialised heap memory has a fixed, non-zero content: a configuration that reads it differs reproducibly */
  char *copy = strdup(a->text);
  char fam[32] = "";
  int full = 1;
  static char *cfgl[128];
  int ncfg = 0;
  ctx_t c;
  ctx_init(&c, REF);
  for (char *p = strtok(copy, "\n"); p; p = strtok(NULL, "\n")) {
    if (p[0] == '#' || !p[0]) continue;
    if (!strncmp(p, "family ", 7)) { sscanf(p, "family %31s %d", fam, &full); continue; }
    if (!strncmp(p, "cfg ", 4) || !strncmp(p, "xcfg ", 5)) { if (ncfg < 128) cfgl[ncfg++] = p; continue; }
    if (!strncmp(p, "same 2 1", 8)) { c.m[2] = c.m[1]; continue; } /* squaring: both factors are the same object */
    int rc = prog_exec_line(&c, p);
    if (rc) { sim_shared->aux[1] = 1; snprintf(sim_shared->note, sizeof sim_shared->note, "skip %.80s", p); return; }
  }
  for (int i = 0; i < MAXREG; i++) opnd[i] = c.m[i];
  if (!fam[0] || !ncfg) { sim_shared->aux[1] = 1; snprintf(sim_shared->note, sizeof sim_shared->note, "incomplete program"); return; }
  /* reference: the SAME entry point (route) and the same `full`, in the shipped configuration with k = 0 and cutoff = 0.
   * (Agreement between different routes is C01/C02/C06's statement, not C12's.) */
  static canon_t refc[8][2];
  static int have[8][2];
  memset(have, 0, sizeof have);
  sched_enable(0);
  static double tref[8][2];
  { canon_t probe; double t0 = cpu_now(); if (eval_family(fam, REF, 0, 0, 0, 1, &probe)) { sim_shared->aux[1] = 1; return; } refc[0][1] = probe; have[0][1] = 1; tref[0][1] = cpu_now() - t0; }
  cov->runs++;
  for (int i = 0; i < ncfg && !viol; i++) {
    char vn[32];
    long l1, l2, l3;
    int k, cutoff, route, team, fl;
    unsigned long long ss;
    if (!strncmp(cfgl[i], "xcfg ", 5)) { /* cross-validation of the knob mechanism: knob build at a triple vs a build with the same triple as literal constants */
      char kn[32], cn[32];
      if (sscanf(cfgl[i], "xcfg %31s %31s %ld %ld %ld %d %d %d %d", kn, cn, &l1, &l2, &l3, &k, &cutoff, &route, &fl) != 9) continue;
      const lib_t *LK = lib_by_name(kn), *LC = lib_by_name(cn);
      if (!LK || !LC) continue;
      canon_t gk, gc, gr;
      uint64_t a0, b0, ak, bk, ac, bc, ar, br;
      m4sim_l1 = (int)l1; m4sim_l2 = (int)l2; m4sim_l3 = (int)l3;
      LK->m4ri_mmc_cleanup(); a0 = heap_stats.requests_nonzero; b0 = heap_stats.bytes_requested;
      eval_family(fam, LK, route, k, cutoff, fl, &gk);
      LK->m4ri_mmc_cleanup(); ak = heap_stats.requests_nonzero - a0; bk = heap_stats.bytes_requested - b0;
      LC->m4ri_mmc_cleanup(); a0 = heap_stats.requests_nonzero; b0 = heap_stats.bytes_requested;
      eval_family(fam, LC, route, k, cutoff, fl, &gc);
      LC->m4ri_mmc_cleanup(); ac = heap_stats.requests_nonzero - a0; bc = heap_stats.bytes_requested - b0;
      /* the same knob build at the shipped sizes: shows whether the triple changed the code path at all (the variants of this
       * mode have no block/header cache, so the request sequence is a pure function of the code path, not of earlier calls) */
      m4sim_l1 = 32768; m4sim_l2 = 1310720; m4sim_l3 = 56623104;
      a0 = heap_stats.requests_nonzero; b0 = heap_stats.bytes_requested;
      eval_family(fam, LK, route, k, cutoff, fl, &gr);
      ar = heap_stats.requests_nonzero - a0; br = heap_stats.bytes_requested - b0;
      cov->configs += 2;
      cov->probes[Q_XVAL_PAIRS]++;
      /* families whose evaluation also calls the reference library (A*X, P*L*U*Q reconstruction) have the reference's cached blocks in their
       * request counts: their allocation signature is not a pure function of the variant's code path and is not compared */
      int sig_ok = strcmp(fam, "solve") && strcmp(fam, "pluq") && strcmp(fam, "ple");
      if (sig_ok && (ak != ar || bk != br)) cov->probes[Q_XVAL_KNOB_EFFECT]++;
      if (!canon_eq(&gk, &gc) || (sig_ok && (ak != ac || bk != bc))) {
        viol = 2;
        snprintf(vnote, sizeof vnote, "KNOB MECHANISM: %s under {%s}: knob build %016llx (%llu requests, %llu bytes) vs constant build %016llx (%llu requests, %llu bytes)", fam, cfgl[i], (unsigned long long)gk.h[0],
                 (unsigned long long)ak, (unsigned long long)bk, (unsigned long long)gc.h[0], (unsigned long long)ac, (unsigned long long)bc);
      } else if (!canon_eq(&gc, &gr)) {
        viol = 1;
        snprintf(vnote, sizeof vnote, "%s under {%s} (literal cache sizes) differs from the shipped configuration", fam, cfgl[i]);
      }
      simlog_u64(gc.h[0] ^ ak);
      continue;
    }
    if (sscanf(cfgl[i], "cfg %31s %ld %ld %ld %d %d %d %d %d %llu", vn, &l1, &l2, &l3, &k, &cutoff, &route, &fl, &team, &ss) != 10) continue;
    const lib_t *L = lib_by_name(vn);
    if (!L) continue; /* variant not linked into this binary (quick tier links a subset) */
    if (l1 < 1024 || l2 < l1 || l3 < l2) continue;
    m4sim_l1 = (int)l1; m4sim_l2 = (int)l2; m4sim_l3 = (int)l3;
    int rr = route & 7, ff = fl ? 1 : 0;
    if (!strcmp(fam, "echelon") == 0) ff = 1; /* `full` only matters for the echelon family */
    if (!have[rr][ff]) { /* the shipped configuration first: it also calibrates the time limit of the varied one */
      m4sim_l1 = 32768; m4sim_l2 = 1310720; m4sim_l3 = 56623104;
      double t0 = cpu_now();
      eval_family(fam, REF, rr, 0, 0, ff, &refc[rr][ff]);
      tref[rr][ff] = cpu_now() - t0;
      have[rr][ff] = 1;
      m4sim_l1 = (int)l1; m4sim_l2 = (int)l2; m4sim_l3 = (int)l3;
    }
    canon_t got;
    if (L->openmp) {
      sched_cfg_t sc;
      memset(&sc, 0, sizeof sc);
      sc.seed = ss; sc.mode = 1; sc.team_size = team < 1 ? 1 : team; sc.logp[YC_RUNTIME] = 1; sc.logp[YC_CRITICAL] = 1; sc.logp[YC_HEAP] = 2; sc.event_budget = (uint64_t)2e9; sc.monitor = 0; sc.nested = (int)(ss & 1);
      sched_reset(&sc);
      sched_enable(1);
      cov->probes[Q_OMP]++;
    }
    sim_shared->aux[5] = 1; /* a varied configuration is being evaluated (attribution of a time-out) */
    cpu_limit(tref[rr][ff] * 60.0 > 4.0 ? tref[rr][ff] * 60.0 : 4.0);
    eval_family(fam, L, route, k, cutoff, fl, &got);
    cpu_limit(150.0);
    sim_shared->aux[5] = 0;
    sched_enable(0);
    cov->configs++;
    if (!L->sse2) cov->probes[Q_NOSSE]++;
    /* reach probes from the knob-implied thresholds (same formulas as the headers) */
    {
      double l3d = (double)l3;
      int strassen_cut = (int)sqrt(4 * l3d); if (strassen_cut > 4096) strassen_cut = 4096;
      int blocksize = (int)sqrt(4 * l3d) / 2; if (blocksize > 2048) blocksize = 2048;
      long ple_cut = l3 >> 3; if (ple_cut > 524288) ple_cut = 524288;
      mzd_t *A = opnd[0] ? opnd[0] : opnd[1];
      int effc = cutoff ? cutoff / 64 * 64 : strassen_cut; if (effc < 64) effc = 64;
      if ((!strcmp(fam, "product") || !strcmp(fam, "accumulate")) && (route == 0 || route >= 3) && opnd[1] && 3 * opnd[1]->nrows >= 4 * effc && 3 * opnd[1]->ncols >= 4 * effc && 3 * opnd[2]->ncols >= 4 * effc && opnd[1]->nrows >= 128) cov->probes[Q_STRASSEN_RECURSED]++;
      if ((!strcmp(fam, "product") || !strcmp(fam, "accumulate")) && route == 1 && opnd[1]->nrows > blocksize) cov->probes[Q_M4RM_MULTIBLOCK]++;
      if ((!strcmp(fam, "pluq") || !strcmp(fam, "ple")) && route == 0 && A->ncols > 64 && (long)A->width * A->nrows > ple_cut) cov->probes[Q_PLE_RECURSIVE]++;
      if (!strncmp(fam, "trsm_", 5) && opnd[0]->nrows > 64 * 3) cov->probes[Q_TRSM_RECURSIVE]++;
      if (!strcmp(fam, "trtri") && (double)A->nrows * A->ncols >= 2 * l3d) cov->probes[Q_TRTRI_RECURSIVE]++;
      if (A && (size_t)A->nrows * (size_t)A->rowstride * 8 >= (size_t)l3) cov->probes[Q_MMC_BYPASS]++;
      if (!strcmp(fam, "echelon") && route == 0 && k == 0 && A && 0.75 * 128 * A->ncols > l3d / 2.0) cov->probes[Q_K_CLAUSE]++;
      if ((!strcmp(fam, "pluq") || !strcmp(fam, "ple")) && A && A->nrows > (l1 >> 3) / (A->width ? A->width : 1)) cov->probes[Q_SMALL_L1_STRIPS]++;
    }
    for (int v = 0; v < m4sim_nlibs && v < 16; v++) if (m4sim_libs[v] == L) cov->variant_use[v]++;
    canon_t want = refc[rr][ff];
    if (!canon_eq(&got, &want)) {
      viol = 1;
      snprintf(vnote, sizeof vnote, "%s under {%s} differs from the reference configuration: got %016llx/%016llx s=%ld,%ld want %016llx/%016llx s=%ld,%ld", fam, cfgl[i], (unsigned long long)got.h[0], (unsigned long long)got.h[1], got.s[0], got.s[1],
               (unsigned long long)want.h[0], (unsigned long long)want.h[1], want.s[0], want.s[1]);
      sim_shared->aux[4] = i;
    }
    simlog_u64(got.h[0] ^ (uint64_t)got.s[0]);
  }
  m4sim_l1 = 32768; m4sim_l2 = 1310720; m4sim_l3 = 56623104;
  if (c.m[2] == c.m[1]) c.m[2] = NULL;
  ctx_free_all(&c);
  free(copy);
  sim_shared->aux[3] = viol;
  snprintf(sim_shared->note, sizeof sim_shared->note, "%s", vnote);
  sim_shared->result_hash = simlog_hash;
  sim_shared->completed = 1;
}

/* ---------------- generator ---------------- */
static const char *FAMS[] = { "product", "accumulate", "echelon", "inverse", "trsm_ul", "trsm_ll", "trsm_ur", "trsm_lr", "trtri", "solve", "pluq", "ple" };
#define NFAM 12
static const char *ALLV[] = { "s_c_q", "s_t_q", "n_c_q", "n_t_q", "s_c_o", "s_t_o", "n_c_o", "n_t_o" };
static int tdim(rng_t *r, int maxd, long l3) { /* dimensions at and around the knob-implied thresholds, multiples of 64 +-1, and free */
  int strassen = (int)sqrt(4.0 * (double)l3); if (strassen > 4096) strassen = 4096;
  int pick = (int)rng_below(r, 10), d;
  int off[] = { -1, 0, 1 };
  switch (pick) {
  case 0: d = strassen + off[rng_below(r, 3)]; break;
  case 1: d = strassen / 2 + off[rng_below(r, 3)]; break;
  case 2: d = strassen * 4 / 3 + off[rng_below(r, 3)]; break;
  case 3: case 4: d = 64 * (1 + (int)rng_below(r, (uint64_t)(maxd / 64))) + off[rng_below(r, 3)]; break;
  case 5: d = 1 + (int)rng_below(r, 70); break;
  default: d = 1 + (int)rng_below(r, (uint64_t)maxd); break;
  }
  if (d < 1) d = 1;
  if (d > maxd) d = maxd;
  return d;
}
static int g_xval; /* >0: number of constant-size variants k0..k{n-1} linked; their triples come from argv */
static long g_xtrip[16][3];
static void gen_program(uint64_t rseed, uint64_t idx, const char *tier, sbuf_t *o) {
  rng_t root = rng_make(rseed);
  rng_t r = rng_split(&root, "gen"), rc = rng_split(&root, "cfg");
  int thorough = !strcmp(tier, "thorough");
  const char *fam = FAMS[idx % NFAM];
  int maxd = thorough ? 2200 : 700;
  long l3s[] = { 65536, 131072, 262144, 1048576, 4194304, 67108864, 536870912, 1073741824 }; /* the last two: stacked-cache server parts */
  long focus_l3 = l3s[rng_below(&r, 3)]; /* operand shapes are placed around the thresholds of a small L3 */
  int full = (int)rng_below(&r, 2);
  sb_printf(o, "# m4sim engine=cfg scenario=%s\n", fam);
  unsigned long long s1 = (unsigned long long)(rng_u64(&r) >> 1), s2 = (unsigned long long)(rng_u64(&r) >> 1), s3 = (unsigned long long)(rng_u64(&r) >> 1);
  const char *gens[] = { "rand", "rand", "rank", "sparse" };
  const char *g = gens[rng_below(&r, 4)];
  /* two shape classes outside the usual box, chosen by the ordinal of the case within its family:
     sliver - one dimension 1..8, the other beyond L3/3 columns of the smallest L3 (the automatic table parameter k and the blocking
              heuristics compare products of dimensions and cache sizes; their corner is the extremely flat matrix);
     huge   - all dimensions just above 4096, where the automatic k of M4RM reaches its upper end for L2 sizes of 1.5..4 MiB. */
  uint64_t ord = idx / NFAM;
  int sliver = ord % 8 == 5, huge = !sliver && ord % 32 == 7 && (!strcmp(fam, "product") || !strcmp(fam, "accumulate"));
  int tiny = rng_chance(&r, 1, 3) ? 16 + (int)rng_below(&r, 6) : 1 + (int)rng_below(&r, 8), big = rng_chance(&r, 1, 3) ? 65473 + (int)rng_below(&r, 4500) : 21846 + (int)rng_below(&r, 5000);
  if (rng_chance(&r, 1, 2)) tiny = 1 + (int)rng_below(&r, 3);
  if (sliver) focus_l3 = 65536;
  if (!strcmp(fam, "product") || !strcmp(fam, "accumulate")) {
    int m = tdim(&r, maxd, focus_l3), l = tdim(&r, maxd, focus_l3), n = tdim(&r, maxd, focus_l3);
    if (sliver) { int w = (int)rng_below(&r, 3); m = w == 0 ? tiny : w == 1 ? big : 1 + (int)rng_below(&r, 40); l = w == 1 ? tiny : w == 2 ? big : 1 + (int)rng_below(&r, 40); n = w == 2 ? tiny : w == 0 ? big : 1 + (int)rng_below(&r, 40); g = "rand"; }
    if (huge) { m = 4096 + (int)rng_below(&r, 130); l = 4096 + (int)rng_below(&r, 130); n = 4096 + (int)rng_below(&r, 130); g = "rand"; }
    int sq = !strcmp(fam, "product") && rng_chance(&r, 1, 6);
    if (sq) { l = m; n = m; }
    sb_printf(o, "mat 1 %d %d %s %d %llu\n", m, l, g, !strcmp(g, "rand") ? 128 : 1 + (int)rng_below(&r, (uint64_t)(m < l ? m : l)), s1);
    if (sq) sb_printf(o, "same 2 1\n"); else sb_printf(o, "mat 2 %d %d rand 128 %llu\n", l, n, s2);
    if (fam[0] == 'a') sb_printf(o, "mat 0 %d %d rand 128 %llu\n", m, n, s3);
  } else if (!strcmp(fam, "echelon") || !strcmp(fam, "pluq") || !strcmp(fam, "ple")) {
    int m = tdim(&r, fam[0] == 'e' ? maxd : maxd + 300, focus_l3), n = tdim(&r, fam[0] == 'e' ? maxd : maxd + 300, focus_l3);
    if (fam[0] == 'p' && rng_chance(&r, 1, 2)) { /* large enough for the block-recursive PLE regime at the smallest L3 (width * nrows > L3/8) */
      focus_l3 = 65536;
      m = 760 + (int)rng_below(&r, 300); n = 760 + (int)rng_below(&r, 300);
    }
    if (sliver) { if (rng_chance(&r, 2, 3)) { m = tiny; n = big; } else { m = big; n = tiny; } }
    int rk = rng_chance(&r, 1, 2) ? 128 : 1 + (int)rng_below(&r, (uint64_t)(m < n ? m : n));
    if (rng_chance(&r, 1, 3)) rk = 1 + (int)rng_below(&r, 6); /* very low rank: recursive regimes meet rank-0/1/2 blocks */
    sb_printf(o, "mat 0 %d %d %s %d %llu\n", m, n, rng_chance(&r, 2, 3) ? "rank" : "rand", rk, s1);
  } else if (!strcmp(fam, "inverse")) {
    int n = tdim(&r, maxd, focus_l3);
    sb_printf(o, "mat 0 %d %d inv 0 %llu\n", n, n, s1);
  } else if (!strncmp(fam, "trsm_", 5)) {
    int n = tdim(&r, maxd, focus_l3), w = tdim(&r, maxd, focus_l3);
    if (sliver) { n = tiny; w = big; }
    int upper = fam[5] == 'u', left = fam[6] == 'l';
    sb_printf(o, "mat 0 %d %d %s %d %llu\n", n, n, upper ? "uut" : "ult", (int)rng_below(&r, 2), s1);
    if (left) sb_printf(o, "mat 1 %d %d rand 128 %llu\n", n, w, s2); else sb_printf(o, "mat 1 %d %d rand 128 %llu\n", w, n, s2);
  } else if (!strcmp(fam, "trtri")) {
    int n = tdim(&r, maxd, focus_l3);
    sb_printf(o, "mat 0 %d %d uut 0 %llu\n", n, n, s1);
  } else if (!strcmp(fam, "solve")) {
    int m = tdim(&r, maxd, focus_l3), n = tdim(&r, maxd, focus_l3), w = tdim(&r, 300, focus_l3);
    if (sliver) { if (rng_chance(&r, 1, 2)) { m = tiny; n = big; w = 1 + (int)rng_below(&r, 5); } else { m = big; n = tiny; w = 1 + (int)rng_below(&r, 5); } }
    sb_printf(o, "mat 0 %d %d %s %d %llu\n", m, n, rng_chance(&r, 1, 2) ? "rank" : "rand", rng_chance(&r, 1, 2) ? 128 : 1 + (int)rng_below(&r, (uint64_t)(m < n ? m : n)), s1);
    sb_printf(o, "mat 1 %d %d %s 128 %llu\n", m > n ? m : n, w, rng_chance(&r, 1, 3) ? "zero" : "rand", s2);
  }
  sb_printf(o, "family %s %d\n", fam, full);
  if (g_xval) {
    for (int i = 0; i < 6; i++) {
      int t = (int)rng_below(&rc, (uint64_t)g_xval);
      long cuts2[] = { 0, 64, 128, 256, 1024 };
      sb_printf(o, "xcfg s_t_q k%d %ld %ld %ld %d %ld %d %d\n", t, g_xtrip[t][0], g_xtrip[t][1], g_xtrip[t][2], (int)rng_below(&rc, 9), cuts2[rng_below(&rc, 5)], (int)rng_below(&rc, 3), full);
    }
    return;
  }
  int ncfg = thorough ? 24 : 12;
  if (huge) ncfg = thorough ? 10 : 6;
  long l1s[] = { 4096, 8192, 16384, 32768, 65536 }, l2s[] = { 32768, 65536, 262144, 1310720, 2097152, 1572865, 3145728, 4194304 };
  long cuts[] = { 0, 64, 128, 192, 256, 512, 1024, 2048, 100 };
  for (int i = 0; i < ncfg; i++) {
    const char *vn = i == 0 ? "s_c_q" : ALLV[rng_below(&rc, 8)];
    long l1 = l1s[rng_below(&rc, 5)], l2 = l2s[rng_below(&rc, huge ? 8 : 5)], l3 = rng_chance(&rc, 1, 2) ? focus_l3 : l3s[rng_below(&rc, 8)];
    if (i == 0) { l1 = 32768; l2 = 1310720; l3 = 56623104; } /* knob build at the shipped sizes: isolates the variant axis */
    if (sliver && i > 0 && i % 2) l3 = 65536;
    if (huge && i > 0 && i % 2) { l2 = l2s[4 + rng_below(&rc, 4)]; if (l3 < 8388608) l3 = 8388608; }
    if (l2 < l1) l2 = l1;
    if (l3 < l2) l3 = l2;
    int kq = (int)rng_below(&rc, 11), routeq = (int)rng_below(&rc, 5);
    long cutq = cuts[rng_below(&rc, 9)];
    if ((sliver || huge) && i % 2) kq = 0; /* the automatic choice is what depends on the cache sizes */
    if (huge) { int rts[] = { 0, 1, 1, 3, 4 }; long hc[] = { 0, 0, 4096, 2048, 1024 }; routeq = rts[rng_below(&rc, 5)]; cutq = hc[rng_below(&rc, 5)]; }
    if (sliver && routeq == 2 && rng_chance(&rc, 1, 2)) routeq = 0;
    sb_printf(o, "cfg %s %ld %ld %ld %d %ld %d %d %d %llu\n", vn, l1, l2, l3, kq, cutq, routeq, full, 1 + (int)rng_below(&rc, 16), (unsigned long long)(rng_u64(&rc) >> 1));
  }
}

static const char *classify(const child_res_t *cr) {
  if (sim_shared->aux[1]) return "SKIPPED";
  if (sim_shared->aux[6]) return "region_never_joins";
  if (cr->fate == FATE_TIMEOUT && sim_shared->aux[5]) return "no_result_under_some_configuration"; /* the shipped configuration returned, a varied one did not within the CPU limit */
  if (cr->fate != FATE_EXIT0 && sim_shared->aux[5]) { static char b[80]; snprintf(b, sizeof b, "%s_under_some_configuration", fate_names[cr->fate]); return b; } /* ... or died: no result either */
  if (cr->fate != FATE_EXIT0) { static char b[64]; snprintf(b, sizeof b, "faultfree_%s", fate_names[cr->fate]); return b; }
  if (!sim_shared->completed) return "incomplete";
  return sim_shared->aux[3] == 2 ? "HARNESS_knob_mechanism_mismatch" : sim_shared->aux[3] ? "result_depends_on_configuration" : "ok";
}
static const char *prop_of(const char *cls) { return !strncmp(cls, "faultfree_", 10) ? "C11" : !strcmp(cls, "region_never_joins") ? "C16" : "C12"; }

static int cmd_worker(int argc, char **argv) {
  if (argc < 7) return 2;
  uint64_t seed = strtoull(argv[2], NULL, 10), first = strtoull(argv[3], NULL, 10), count = strtoull(argv[4], NULL, 10);
  const char *tier = argv[5], *outdir = argv[6];
  double budget = argc > 7 ? atof(argv[7]) : 1e9, t0 = eng_now();
  if (argc > 9 && !strcmp(argv[8], "xval")) { /* xval L1:L2:L3,L1:L2:L3,... */
    char *sp = strdup(argv[9]);
    for (char *q = strtok(sp, ","); q && g_xval < 16; q = strtok(NULL, ",")) if (sscanf(q, "%ld:%ld:%ld", &g_xtrip[g_xval][0], &g_xtrip[g_xval][1], &g_xtrip[g_xval][2]) == 3) g_xval++;
  }
  char errpath[512], cur[512];
  snprintf(errpath, sizeof errpath, "%s/stderr-%llu.txt", outdir, (unsigned long long)first);
  snprintf(cur, sizeof cur, "%s/cur-%llu.prog", outdir, (unsigned long long)first);
  sbuf_t sb = { 0 };
  cov = (ccov_t *)SIM_SHARED_EXT;
  for (uint64_t idx = first; idx < first + count; idx++) {
    if (eng_now() - t0 > budget) { printf("B idx=%llu budget exhausted\n", (unsigned long long)idx); break; }
    sb_reset(&sb);
    gen_program(eng_run_seed(seed, "cfg", idx), idx, tier, &sb);
    eng_write_file(cur, sb.s);
    runarg_t a = { sb.s };
    child_res_t cr;
    eng_fork_run(child_run, &a, errpath, 150, &cr);
    const char *cls = classify(&cr);
    char scen[64] = "?";
    const char *s = strstr(sb.s, "scenario=");
    if (s) sscanf(s, "scenario=%63s", scen);
    if (strcmp(cls, "ok") && strcmp(cls, "SKIPPED")) {
      char fn[512], buf[300];
      snprintf(fn, sizeof fn, "%s/viol-%llu.prog", outdir, (unsigned long long)idx);
      eng_write_file(fn, sb.s);
      eng_first_line_matching(errpath, "rror", buf, sizeof buf);
      eng_find_lib_frame(errpath);
      printf("V idx=%llu prop=%s class=%s func=%s scen=%s file=%s detail=%s | %s\n", (unsigned long long)idx, prop_of(cls), cls, eng_top_lib_frame[0] ? eng_top_lib_frame : "-", scen, fn, sim_shared->note, buf);
    }
    if (!strcmp(cls, "SKIPPED")) printf("K idx=%llu scen=%s %s\n", (unsigned long long)idx, scen, sim_shared->note);
    printf("R idx=%llu class=%s scen=%s hash=%016llx\n", (unsigned long long)idx, cls, scen, (unsigned long long)sim_shared->result_hash);
    fflush(stdout);
  }
  printf("T forks=%llu runs=%llu configs=%llu", (unsigned long long)eng_forks, (unsigned long long)cov->runs, (unsigned long long)cov->configs);
  for (int i = 0; i < Q_NQ; i++) printf(" p.%s=%llu", q_names[i], (unsigned long long)cov->probes[i]);
  for (int v = 0; v < m4sim_nlibs && v < 16; v++) printf(" v.%s=%llu", m4sim_libs[v]->name, (unsigned long long)cov->variant_use[v]);
  printf("\n");
  return 0;
}

static int cmd_exec(int argc, char **argv) {
  if (argc < 3) return 2;
  char *text = eng_read_file(argv[2], NULL);
  if (!text) return 2;
  char errpath[512];
  snprintf(errpath, sizeof errpath, "%s.stderr", argv[2]);
  cov = (ccov_t *)SIM_SHARED_EXT;
  runarg_t a = { text };
  child_res_t cr;
  eng_fork_run(child_run, &a, errpath, 150, &cr);
  const char *cls = classify(&cr);
  char buf[300];
  eng_first_line_matching(errpath, "rror", buf, sizeof buf);
  eng_find_lib_frame(errpath);
  printf("X class=%s prop=%s func=%s cfgline=%ld hash=%016llx detail=%s | %s\n", cls, prop_of(cls), eng_top_lib_frame[0] ? eng_top_lib_frame : "-", (long)sim_shared->aux[4], (unsigned long long)sim_shared->result_hash, sim_shared->note, buf);
  if (!getenv("M4SIM_KEEP_STDERR")) unlink(errpath);
  return 0;
}

int main(int argc, char **argv) {
  setvbuf(stdout, NULL, _IOLBF, 0);
  sim_shared_init();
  if (argc >= 2 && !strcmp(argv[1], "worker")) return cmd_worker(argc, argv);
  if (argc >= 2 && !strcmp(argv[1], "exec")) return cmd_exec(argc, argv);
  return 2;
}
