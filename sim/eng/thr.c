/* Engine `thr` (C15): the thread-safe build (both caches compiled out) is driven
 * by 2..16 SIMULATED caller threads (cooperative tasks), each running its own
 * seeded sequence of library calls on operands it created itself.  The seeded
 * scheduler preempts between individual memory accesses; the access monitor
 * knows only thread creation/join (and free -> malloc) as ordering.  Oracles: no
 * conflicting unordered accesses; every thread's outcomes equal its solo run;
 * allocations balanced.   DESIGN.md C15. */
#define _GNU_SOURCE
#include "parcommon.h"
#include <unistd.h>

enum { TV_OK = 0, TV_RACE, TV_DIFFERS, TV_LEAK, TV_INVALID_FREE, TV_LIVENESS, TV_PADDING, TV_CONTROL_NOT_FLAGGED, TV_N };
static const char *tv_names[TV_N] = { "ok", "data_race", "thread_result_differs_from_solo_run", "temporary_not_released", "invalid_or_double_free", "thread_never_finishes", "dirty_padding", "CONTROL_not_flagged" };

typedef struct {
  uint64_t runs, events, switches, preemptions, threads, calls, shared_readonly, races_control, thr_hist[17], nhash;
  uint64_t hashes[16384];
} tcov_t;
static tcov_t *cov;
static void note_interleaving(uint64_t h) {
  if (!h) return;
  size_t s = (size_t)(h & 16383);
  for (int k = 0; k < 64; k++) {
    if (cov->hashes[s] == h) return;
    if (!cov->hashes[s]) { cov->hashes[s] = h; cov->nhash++; return; }
    s = (s + 1) & 16383;
  }
}

#define MAXTHR 16
#define MAXTL 80
typedef struct { char *lines[MAXTL]; int n; uint64_t solo, conc; int pad; int skipped; char why[96]; } tprog_t;
static tprog_t tp[MAXTHR];
static int nthr;
static const lib_t *L;

static void run_thread_lines(tprog_t *t, uint64_t *out) {
  ctx_t c;
  ctx_init(&c, L);
  t->pad = -1;
  for (int i = 0; i < t->n; i++) {
    int rc = prog_exec_line(&c, t->lines[i]);
    if (rc == 1 || rc < 0) { t->skipped = 1; snprintf(t->why, sizeof t->why, "%.60s (%s)", t->lines[i], c.skipwhy); break; }
    if (!strncmp(t->lines[i], "op ", 3)) { int pr = ctx_check_padding(&c); if (pr >= 0 && t->pad < 0) t->pad = pr; }
  }
  *out = ctx_hash(&c);
  ctx_free_all(&c);
}
static void thread_body(void *ud) { tprog_t *t = (tprog_t *)ud; run_thread_lines(t, &t->conc); }

typedef struct { const char *text; const char *dec_out; } runarg_t;
static int viol;
static char vnote[220];
static void flag(int v, const char *note) { if (viol) return; viol = v; snprintf(vnote, sizeof vnote, "%s", note ? note : ""); }

static void child_run(void *ud) {
  runarg_t *a = (runarg_t *)ud;
  cov = (tcov_t *)SIM_SHARED_EXT;
  L = lib_by_name("ts");
  sched_cfg_t cfg;
  int have_cfg = 0, control = 0;
  char *copy = strdup(a->text);
  static struct { uint64_t ev; int task; } pts[200000];
  int npts = 0;
  nthr = 0;
  memset(tp, 0, sizeof tp);
  for (char *p = strtok(copy, "\n"); p; p = strtok(NULL, "\n")) {
    if (p[0] == '#' || !p[0]) continue;
    if (!strncmp(p, "lib ", 4)) { const lib_t *l = lib_by_name(p + 4); if (l) L = l; continue; }
    if (!strncmp(p, "knobs ", 6)) { long x, y, z; if (sscanf(p, "knobs %ld %ld %ld", &x, &y, &z) == 3 && x >= 1024 && y >= x && z >= y) { m4sim_l1 = (int)x; m4sim_l2 = (int)y; m4sim_l3 = (int)z; } continue; }
    if (!strncmp(p, "schedcfg ", 9)) { have_cfg = par_parse_cfg(p, &cfg); continue; }
    if (!strncmp(p, "sched ", 6)) { unsigned long long e; int t; if (sscanf(p, "sched %llu %d", &e, &t) == 2 && npts < 200000) { pts[npts].ev = e; pts[npts].task = t; npts++; } continue; }
    if (!strncmp(p, "control ", 8)) { control = 1; continue; }
    if (!strncmp(p, "thread ", 7)) {
      int k = atoi(p + 7);
      char *q = strchr(p + 7, ' ');
      if (k < 0 || k >= MAXTHR || !q) continue;
      if (tp[k].n < MAXTL) tp[k].lines[tp[k].n++] = q + 1;
      if (k + 1 > nthr) nthr = k + 1;
      continue;
    }
    sim_shared->aux[1] = 1; snprintf(sim_shared->note, sizeof sim_shared->note, "unknown line %.80s", p); return;
  }
  if (!have_cfg || !L || nthr < 1) { sim_shared->aux[1] = 1; snprintf(sim_shared->note, sizeof sim_shared->note, "incomplete program"); return; }
  heap_config(cfg.seed, FILL_A5, RECYCLE_OFF, 0);
  sched_enable(0);
  L->m4ri_mmc_cleanup();
  size_t live0 = heap_live_count();
  uint64_t dig0 = heap_live_digest();
  /* 1. dry concurrent run without preemption (event count for PCT and the liveness budget) */
  sched_cfg_t base = cfg;
  base.mode = 0;
  base.event_budget = (uint64_t)3e9;
  sched_reset(&base);
  sched_enable(1);
  for (int k = 0; k < nthr; k++) sched_spawn(thread_body, &tp[k]);
  sched_join_all();
  sched_enable(0);
  uint64_t E = sched_stats.events;
  int races_dry = sched_nraces;
  if (races_dry && !control) { par_print_races(stderr); flag(TV_RACE, "conflicting unordered accesses (threads run one after the other)"); sim_shared->fail_site = sched_races[0].cur_pc; sim_shared->aux[7] = (long)sched_races[0].prev_pc; }
  uint64_t dryout[MAXTHR];
  for (int k = 0; k < nthr; k++) { dryout[k] = tp[k].conc; if (tp[k].skipped) { sim_shared->aux[1] = 1; snprintf(sim_shared->note, sizeof sim_shared->note, "skip thread %d: %s", k, tp[k].why); return; } }
  /* 2. the seeded schedule */
  if (!viol || control) {
    sched_cfg_t run = cfg;
    run.pct_events = E;
    run.event_budget = E * 20 + 2000000;
    if (npts) run.mode = 3;
    sched_reset(&run);
    for (int i = 0; i < npts; i++) sched_add_replay_point(pts[i].ev, pts[i].task);
    /* creation order is seeded too */
    int order[MAXTHR];
    for (int k = 0; k < nthr; k++) order[k] = k;
    rng_t ro = rng_make(cfg.seed ^ 0x6f72646572ULL);
    for (int k = nthr - 1; k > 0; k--) { int j = (int)rng_below(&ro, (uint64_t)k + 1); int t = order[k]; order[k] = order[j]; order[j] = t; }
    sched_enable(1);
    for (int k = 0; k < nthr; k++) sched_spawn(thread_body, &tp[order[k]]);
    sched_join_all();
    sched_enable(0);
    sim_shared->aux[2] = (long)sched_stats.events;
    if (a->dec_out) {
      size_t cap = 64 + (size_t)(sched_stats.switches + sched_stats.forced_choices) * 32;
      char *buf = (char *)malloc(cap);
      buf[0] = 0;
      sched_dump_decisions(buf, cap);
      eng_write_file(a->dec_out, buf);
      free(buf);
    }
    if (control) {
      cov->races_control += sched_stats.races + (uint64_t)races_dry;
      if (!sched_stats.races && !races_dry) flag(TV_CONTROL_NOT_FLAGGED, "the non-thread-safe build was driven by several threads and the access monitor saw no conflict");
    } else {
      if (sched_nraces) { par_print_races(stderr); flag(TV_RACE, "conflicting unordered accesses"); sim_shared->fail_site = sched_races[0].cur_pc; sim_shared->aux[7] = (long)sched_races[0].prev_pc; }
      for (int k = 0; k < nthr; k++) if (tp[k].pad >= 0) flag(TV_PADDING, "excess bits set after a call (concurrent run)");
    }
    cov->runs++; cov->events += sched_stats.events + E; cov->switches += sched_stats.switches; cov->preemptions += sched_stats.preemptions; cov->threads += (uint64_t)nthr;
    cov->shared_readonly += sched_stats.shared_granules;
    cov->thr_hist[nthr]++;
    for (int k = 0; k < nthr; k++) for (int i = 0; i < tp[k].n; i++) if (!strncmp(tp[k].lines[i], "op ", 3)) cov->calls++;
    note_interleaving(sched_stats.interleaving_hash);
    for (int k = 0; k < nthr; k++) simlog_u64(tp[k].conc);
    simlog_u64(sched_stats.events); simlog_u64(sched_stats.switches);
  }
  heap_viol_t hv = heap_take_violation();
  if (hv.kind != HV_NONE && !control) flag(TV_INVALID_FREE, "invalid or double free");
  L->m4ri_mmc_cleanup();
  if (!viol && !control && (heap_live_count() != live0 || heap_live_digest() != dig0)) flag(TV_LEAK, "allocations made by the threads were not all released");
  /* 3. solo runs LAST (so that anything the library initialises lazily is first touched by the concurrent phases): what a sequential execution gives each thread */
  if (!control) {
    uint64_t concout[MAXTHR];
    for (int k = 0; k < nthr; k++) concout[k] = tp[k].conc;
    sched_enable(0);
    for (int k = 0; k < nthr; k++) {
      run_thread_lines(&tp[k], &tp[k].solo);
      if (tp[k].pad >= 0) flag(TV_PADDING, "excess bits set after a call (solo run)");
      if (dryout[k] != tp[k].solo) { char b[120]; snprintf(b, sizeof b, "thread %d (threads one after the other): %016llx, solo %016llx", k, (unsigned long long)dryout[k], (unsigned long long)tp[k].solo); flag(TV_DIFFERS, b); }
      if (concout[k] != tp[k].solo) { char b[120]; snprintf(b, sizeof b, "thread %d: %016llx, solo %016llx", k, (unsigned long long)concout[k], (unsigned long long)tp[k].solo); flag(TV_DIFFERS, b); }
    }
  }
  free(copy);
  sim_shared->aux[3] = viol;
  snprintf(sim_shared->note, sizeof sim_shared->note, "%s", vnote);
  sim_shared->result_hash = simlog_hash;
  sim_shared->completed = 1;
}

/* ---------------- generator ---------------- */
static void gen_program(uint64_t rseed, uint64_t idx, const char *tier, sbuf_t *o, int control) {
  rng_t root = rng_make(rseed);
  rng_t r = rng_split(&root, "gen"), rs = rng_split(&root, "sched");
  int thorough = !strcmp(tier, "thorough");
  sb_printf(o, "# m4sim engine=thr scenario=threads lib=%s\nlib %s\n", control ? "def" : "ts", control ? "def" : "ts");
  if (control) sb_printf(o, "control non_thread_safe_build\n");
  if (rng_chance(&r, 1, 2)) sb_printf(o, "knobs %d %d %d\n", 4096 << rng_below(&r, 4), 32768 << rng_below(&r, 3), 262144 << rng_below(&r, 4));
  sched_cfg_t c;
  par_random_cfg(&rs, &c, 16);
  c.team_size = 1; c.dynamic_team = 0; c.nested = 0;
  if (control) { c.mode = 1; c.logp[YC_HEAP] = 1; c.logp[YC_ACCESS] = 10; }
  par_emit_cfg(o, &c);
  int nts[] = { 2, 2, 3, 4, 4, 8, 16, 5 };
  int nt = nts[rng_below(&r, 8)];
  if (control && nt > 4) nt = 4;
  int nops = gen_nops();
  if (!control && idx % 2 == 1) { /* focused case: 2-3 threads run the SAME operation in its deep regimes (smallest caches, dimensions beyond 256, PLE beyond L3/8), one or two calls each:
                                     shared state that only the recursive / wide code paths touch */
    const char *fop = gen_all_ops[(idx / 2) % (uint64_t)nops];
    o->n = 0; if (o->s) o->s[0] = 0;
    sb_printf(o, "# m4sim engine=thr scenario=threads lib=ts\nlib ts\nknobs 4096 32768 65536\n");
    par_emit_cfg(o, &c);
    nt = 2 + (int)rng_below(&r, 2);
    for (int k = 0; k < nt; k++) {
      int ncalls = 1 + (int)rng_below(&r, 2);
      for (int i = 0; i < ncalls; i++) {
        sbuf_t t = { 0 };
        genopt_t g = { 400, rng_chance(&r, 1, 4) ? 6 : 0 };
        g.deep = 1;
        gen_case(&r, fop, &g, &t, 4 * (i % 3), 2 * (i % 3));
        for (char *q = strtok(t.s, "\n"); q; q = strtok(NULL, "\n")) sb_printf(o, "thread %d %s\n", k, q);
        free(t.s);
        sb_printf(o, "thread %d freeall\n", k);
      }
    }
    return;
  }
  for (int k = 0; k < nt; k++) {
    int ncalls = 3 + (int)rng_below(&r, thorough ? 10 : 6);
    if (nt >= 8) ncalls = 2 + (int)rng_below(&r, 3);
    for (int i = 0; i < ncalls; i++) {
      sbuf_t t = { 0 };
      genopt_t g = { rng_chance(&r, 1, 3) ? 200 : 70, rng_chance(&r, 1, 4) ? 6 : 0 };
      gen_case(&r, gen_all_ops[rng_below(&r, (uint64_t)nops)], &g, &t, 4 * (i % 3), 2 * (i % 3));
      for (char *q = strtok(t.s, "\n"); q; q = strtok(NULL, "\n")) sb_printf(o, "thread %d %s\n", k, q);
      free(t.s);
      if (i % 3 == 2) sb_printf(o, "thread %d freeall\n", k);
    }
  }
}

static int g_control;
static const char *classify(const child_res_t *cr) {
  if (sim_shared->aux[1]) return "SKIPPED";
  if (g_control && (cr->fate != FATE_EXIT0 || sim_shared->aux[6])) return "ok";
  if (sim_shared->aux[6]) return tv_names[TV_LIVENESS];
  if (cr->fate != FATE_EXIT0) { static char b[64]; snprintf(b, sizeof b, "crash_%s", fate_names[cr->fate]); return b; }
  if (!sim_shared->completed) return "incomplete";
  return tv_names[sim_shared->aux[3]];
}
static const char *prop_of(const char *cls) { return !strcmp(cls, "dirty_padding") ? "C10" : (!strcmp(cls, "temporary_not_released") || !strcmp(cls, "invalid_or_double_free")) ? "C11" : "C15"; }

static int cmd_worker(int argc, char **argv) {
  if (argc < 7) return 2;
  uint64_t seed = strtoull(argv[2], NULL, 10), first = strtoull(argv[3], NULL, 10), count = strtoull(argv[4], NULL, 10);
  const char *tier = argv[5], *outdir = argv[6];
  double budget = argc > 7 ? atof(argv[7]) : 1e9, t0 = eng_now();
  int control = argc > 8 && !strcmp(argv[8], "control");
  g_control = control;
  char errpath[512], cur[512];
  snprintf(errpath, sizeof errpath, "%s/stderr-%llu.txt", outdir, (unsigned long long)first);
  snprintf(cur, sizeof cur, "%s/cur-%llu.prog", outdir, (unsigned long long)first);
  sbuf_t sb = { 0 };
  cov = (tcov_t *)SIM_SHARED_EXT;
  for (uint64_t idx = first; idx < first + count; idx++) {
    if (eng_now() - t0 > budget) { printf("B idx=%llu budget exhausted\n", (unsigned long long)idx); break; }
    sb_reset(&sb);
    gen_program(eng_run_seed(seed, control ? "thrctl" : "thr", idx), idx, tier, &sb, control);
    eng_write_file(cur, sb.s);
    runarg_t a = { sb.s, NULL };
    child_res_t cr;
    eng_fork_run(child_run, &a, errpath, 200, &cr);
    const char *cls = classify(&cr);
    if (strcmp(cls, "ok") && strcmp(cls, "SKIPPED")) {
      char fn[512], buf[300];
      snprintf(fn, sizeof fn, "%s/viol-%s%llu.prog", outdir, control ? "ctl" : "", (unsigned long long)idx);
      eng_write_file(fn, sb.s);
      eng_first_line_matching(errpath, "rror", buf, sizeof buf);
      eng_find_lib_frame(errpath);
      printf("V idx=%llu prop=%s class=%s func=%s site=0x%llx site2=0x%lx scen=threads file=%s detail=%s | %s\n", (unsigned long long)idx, prop_of(cls), cls, eng_top_lib_frame[0] ? eng_top_lib_frame : "-",
             (unsigned long long)sim_shared->fail_site, (unsigned long)sim_shared->aux[7], fn, sim_shared->note, buf);
    }
    if (!strcmp(cls, "SKIPPED")) printf("K idx=%llu %s\n", (unsigned long long)idx, sim_shared->note);
    printf("R idx=%llu class=%s events=%ld hash=%016llx\n", (unsigned long long)idx, cls, (long)sim_shared->aux[2], (unsigned long long)sim_shared->result_hash);
    fflush(stdout);
  }
  printf("T forks=%llu runs=%llu events=%llu switches=%llu preemptions=%llu threads=%llu calls=%llu interleavings=%llu races_control=%llu shared_readonly_granules=%llu thr_hist=", (unsigned long long)eng_forks,
         (unsigned long long)cov->runs, (unsigned long long)cov->events, (unsigned long long)cov->switches, (unsigned long long)cov->preemptions, (unsigned long long)cov->threads, (unsigned long long)cov->calls,
         (unsigned long long)cov->nhash, (unsigned long long)cov->races_control, (unsigned long long)cov->shared_readonly);
  for (int i = 1; i <= 16; i++) printf("%s%llu", i > 1 ? "," : "", (unsigned long long)cov->thr_hist[i]);
  printf("\n");
  return 0;
}

static int cmd_exec(int argc, char **argv, int explicit_out) {
  if (argc < 3) return 2;
  char *text = eng_read_file(argv[2], NULL);
  if (!text) return 2;
  char errpath[512], decpath[512];
  snprintf(errpath, sizeof errpath, "%s.stderr", argv[2]);
  snprintf(decpath, sizeof decpath, "%s.dec", argv[2]);
  cov = (tcov_t *)SIM_SHARED_EXT;
  g_control = strstr(text, "\ncontrol ") != NULL;
  runarg_t a = { text, explicit_out ? decpath : NULL };
  child_res_t cr;
  eng_fork_run(child_run, &a, errpath, 200, &cr);
  const char *cls = classify(&cr);
  char buf[300];
  eng_first_line_matching(errpath, "rror", buf, sizeof buf);
  eng_find_lib_frame(errpath);
  printf("X class=%s prop=%s func=%s site=0x%llx site2=0x%lx events=%ld hash=%016llx detail=%s | %s\n", cls, prop_of(cls), eng_top_lib_frame[0] ? eng_top_lib_frame : "-", (unsigned long long)sim_shared->fail_site,
         (unsigned long)sim_shared->aux[7], (long)sim_shared->aux[2], (unsigned long long)sim_shared->result_hash, sim_shared->note, buf);
  if (explicit_out && argc > 3) {
    char *dec = eng_read_file(decpath, NULL);
    sbuf_t o = { 0 };
    for (char *p = strtok(text, "\n"); p; p = strtok(NULL, "\n")) {
      if (!strncmp(p, "sched ", 6)) continue;
      if (!strncmp(p, "schedcfg ", 9)) { sched_cfg_t c; par_parse_cfg(p, &c); c.mode = 3; par_emit_cfg(&o, &c); if (dec) sb_printf(&o, "%s", dec); }
      else sb_printf(&o, "%s\n", p);
    }
    eng_write_file(argv[3], o.s);
    free(o.s); free(dec);
  }
  unlink(decpath);
  if (!getenv("M4SIM_KEEP_STDERR")) unlink(errpath);
  return 0;
}

int main(int argc, char **argv) {
  setvbuf(stdout, NULL, _IOLBF, 0);
  sim_shared_init();
  if (argc >= 2 && !strcmp(argv[1], "worker")) return cmd_worker(argc, argv);
  if (argc >= 2 && !strcmp(argv[1], "exec")) return cmd_exec(argc, argv, 0);
  if (argc >= 2 && !strcmp(argv[1], "explicit")) return cmd_exec(argc, argv, 1);
  return 2;
}
