/* Engine `hist` (C10, C11): one probe call is executed in K "worlds" that
 * differ only in what a result must not depend on: the call history (cache
 * contents), the content of heap memory handed out uninitialised or recycled,
 * and the prior content of a destination that the call overwrites.  All worlds
 * must agree with world 0 bit for bit; padding bits of owned matrices must be
 * zero after every call; every temporary must be released.  Also the
 * die-before-touch clause of C11 (mode `illdim`).   DESIGN.md C10, C11. */
#define _GNU_SOURCE
#include "engutil.h"
#include <stdlib.h>
#include <sys/wait.h>
#include <unistd.h>

enum { HX_OK = 0, HX_OUTCOME_DIFFERS, HX_DIRTY_PADDING, HX_LEAK, HX_HEADER_SLOT_LEAK, HX_INVALID_FREE, HX_ILL_RETURNED, HX_ILL_TOUCHED, HX_ILL_SILENT, HX_NN };
static const char *hv_names[HX_NN] = { "ok", "outcome_depends_on_history_or_heap", "dirty_padding", "temporary_not_released", "header_slot_not_released", "invalid_or_double_free", "illdim_call_returned", "illdim_operand_touched_before_die", "illdim_silent_abort" };

typedef struct { uint64_t probes[16]; uint64_t worlds, calls; unsigned char state_bits[2048]; uint64_t stride_dirty; } hcov_t;
static hcov_t *cov;
enum { Q_RECYCLED_IN_PROBE, Q_CACHE_WARM, Q_PREFIX_CALLS, Q_JUNK_DEST, Q_SMALL_KNOBS, Q_HEADER_POOL_GREW, Q_VIEW_OPERAND, Q_FLAT_OPERAND, Q_BEYOND_512_COLUMNS, Q_KEPT_UNTIL_FINI, Q_NQ };
static const char *q_names[Q_NQ] = { "probe_call_received_recycled_block", "probe_call_started_with_warm_block_cache", "prefix_calls_executed", "destination_prefilled_with_junk", "small_cache_knobs", "header_pool_grew", "probe_operand_is_a_view", "probe_operand_flat_20000_by_few", "probe_operand_beyond_512_columns", "storage_kept_by_the_library_until_finalisation" };

typedef struct { const char *text; } runarg_t;

static uint32_t dump_from;
static char leak_bt[200];
static void dump_live(void *p, size_t size, uint32_t id, const void *site, void *ud) {
  if (id >= dump_from) {
    fprintf(stderr, "  leaked block id=%u size=%zu site=%p\n", id, size, site);
    if (ud && !*(uint64_t *)ud) {
      *(uint64_t *)ud = (uint64_t)(uintptr_t)site;
      void *bt[HEAP_BT_DEPTH];
      int n = heap_block_bt(p, bt, HEAP_BT_DEPTH), k = 0;
      for (int i = 0; i < n && k < (int)sizeof leak_bt - 20; i++) k += snprintf(leak_bt + k, sizeof leak_bt - (size_t)k, "%s%llx", i ? "," : "", (unsigned long long)(uintptr_t)bt[i]);
    }
  }
}
typedef struct { size_t sz; int n; } cnt_t;
static void cnt_cb(void *p, size_t size, uint32_t id, const void *site, void *ud) { (void)p; (void)id; (void)site; cnt_t *c = (cnt_t *)ud; if (size == c->sz) c->n++; }
static int count_size(size_t sz) { cnt_t c = { sz, 0 }; heap_iter_live(cnt_cb, &c); return c.n; }

/* black-box probe of the header pool at quiescence: how many view headers can be created before the library asks the heap for
 * more.  Calibrated on the pristine library at the start of the run (no assumption about the pool's size or block size); a
 * smaller number later means that something the program freed still occupies a slot. */
static int header_room(const lib_t *L) {
  if (!L->mzdcache) return 0;
  mzd_t *M = L->mzd_init(1, 64);
  enum { CAP = 300 };
  mzd_t *W[CAP];
  size_t base = heap_live_count();
  int n = 0, room = CAP;
  for (; n < CAP; n++) {
    W[n] = L->mzd_init_window(M, 0, 0, 1, 64);
    if (heap_live_count() != base) { room = n; n++; break; }
  }
  for (int i = n - 1; i >= 0; i--) L->mzd_free(W[i]);
  L->mzd_free(M);
  return room;
}
static int g_header_room = -1;

/* The ledger differs from its level before the calls although the program freed everything and the block cache was cleaned.  Storage
 * the library keeps for re-use until it is finalised (an empty header block, say) is its own business; a temporary an operation forgot
 * is not.  They are told apart by finalising: what survives m4ri_fini() - compared with the level measured the same way on the pristine
 * library - was leaked. */
static size_t g_fini_level;
static size_t level_after_fini(const lib_t *L) { L->m4ri_mmc_cleanup(); L->m4ri_fini(); size_t n = heap_live_count(); L->m4ri_init(); return n; }
static int really_leaked(const lib_t *L) { size_t n = level_after_fini(L); if (n != g_fini_level) return 1; cov->probes[Q_KEPT_UNTIL_FINI]++; return 0; }

static int viol, viol_world, viol_line;
static char viol_note[200];
static uint64_t viol_site;
static void flag(int v, int world, int line, const char *note) {
  if (viol) return;
  viol = v; viol_world = world; viol_line = line;
  snprintf(viol_note, sizeof viol_note, "%s", note ? note : "");
}

static void child_run(void *ud) {
  runarg_t *a = (runarg_t *)ud;
  cov = (hcov_t *)SIM_SHARED_EXT;
  const lib_t *L = m4sim_libs[0];
  heap_bt_on = 1;
  /* pass 1: collect lines */
  static char *lines[4096];
  static char kinds[4096]; /* 'w' world, 'p' prefix (with world no), 'b' probe */
  static int wno[4096];
  int nl = 0, nworlds = 0;
  char *copy = strdup(a->text);
  for (char *p = strtok(copy, "\n"); p && nl < 4096; p = strtok(NULL, "\n")) {
    if (p[0] == '#' || !p[0]) continue;
    if (!strncmp(p, "lib ", 4)) { const lib_t *l = lib_by_name(p + 4); if (l) L = l; continue; }
    if (!strncmp(p, "knobs ", 6)) { long x, y, z; if (sscanf(p, "knobs %ld %ld %ld", &x, &y, &z) == 3 && x >= 1024 && y >= x && z >= y) { m4sim_l1 = (int)x; m4sim_l2 = (int)y; m4sim_l3 = (int)z; if (z < 1 << 22) cov->probes[Q_SMALL_KNOBS]++; } continue; }
    if (!strncmp(p, "world ", 6)) { kinds[nl] = 'w'; wno[nl] = atoi(p + 6); lines[nl++] = p; if (wno[nl - 1] + 1 > nworlds) nworlds = wno[nl - 1] + 1; continue; }
    if (!strncmp(p, "prefix ", 7)) { int k = atoi(p + 7); char *q = strchr(p + 7, ' '); if (!q) continue; kinds[nl] = 'p'; wno[nl] = k; lines[nl++] = q + 1; continue; }
    if (!strncmp(p, "probe ", 6)) {
      kinds[nl] = 'b'; wno[nl] = -1; lines[nl++] = p + 6;
      if (!strncmp(p + 6, "wmat ", 5)) cov->probes[Q_VIEW_OPERAND]++;
      { long rr, mm, nn; if (sscanf(p + 6, "%*s %ld %ld %ld", &rr, &mm, &nn) == 3 && (!strncmp(p + 6, "mat ", 4) || !strncmp(p + 6, "wmat ", 5))) { if (mm >= 20000 || nn >= 20000) cov->probes[Q_FLAT_OPERAND]++; else if (nn > 512) cov->probes[Q_BEYOND_512_COLUMNS]++; } }
      continue;
    }
    sim_shared->aux[1] = 1; snprintf(sim_shared->note, sizeof sim_shared->note, "unknown line: %.100s", p); return;
  }
  if (nworlds < 1) nworlds = 1;
  { /* a destination with world-dependent prior content is only meaningful together with the call that overwrites it (the shrinker may drop lines) */
    int junk = 0, ops = 0;
    for (int i = 0; i < nl; i++) if (kinds[i] == 'b') { if (strstr(lines[i], " junk ")) junk = 1; if (!strncmp(lines[i], "op ", 3)) ops++; }
    if (junk && !ops) { sim_shared->aux[1] = 1; snprintf(sim_shared->note, sizeof sim_shared->note, "skip probe: junk destination without a call"); return; }
  }
  uint64_t out0 = 0;
  int have0 = 0;
  g_fini_level = level_after_fini(L);
  g_header_room = header_room(L); /* calibration on the pristine library */
  (void)level_after_fini(L);
  for (int k = 0; k < nworlds && !viol; k++) {
    /* world configuration */
    int fill = FILL_ZERO, rec = RECYCLE_OFF;
    unsigned long long ws = 0;
    int configured = 0;
    for (int i = 0; i < nl; i++) if (kinds[i] == 'w' && wno[i] == k) { sscanf(lines[i], "world %*d %d %d %llu", &fill, &rec, &ws); configured = 1; }
    if (!configured && k > 0) continue; /* world removed by the shrinker */
    sim_shared->aux[0] = k;
    heap_config(ws ^ (uint64_t)k, fill, rec, 0);
    gen_world_seed = k == 0 ? 0 : (ws | 1);
    gen_fresh_world_has_zero_surroundings = 1;
    L->m4ri_mmc_cleanup();
    size_t live0 = heap_live_count();
    uint64_t dig0 = heap_live_digest();
    dump_from = heap_next_id();
    int hb0 = L->mzdcache ? count_size(sizeof(mzd_t) * 64 + 64) : 0;
    cov->worlds++;
    ctx_t c;
    ctx_init(&c, L);
    /* history prefix of this world */
    sim_shared->aux[2] = 0; /* phase: 0 = history prefix, 1 = probe call (for attribution of a crash) */
    for (int i = 0; i < nl && !viol; i++) {
      if (kinds[i] != 'p' || wno[i] != k) continue;
      int rc = prog_exec_line(&c, lines[i]);
      if (rc == 1 || rc < 0) { sim_shared->aux[1] = 1; snprintf(sim_shared->note, sizeof sim_shared->note, "skip prefix: %.80s (%s)", lines[i], c.skipwhy); return; }
      cov->probes[Q_PREFIX_CALLS]++;
      int pr = ctx_check_padding(&c);
      if (pr >= 0) { char b[120]; snprintf(b, sizeof b, "register %d after prefix line: %.80s", pr, lines[i]); flag(HX_DIRTY_PADDING, k, i, b); }
    }
    ctx_free_all(&c);
    if (L->mmc_cache) { int s = 0; for (int i = 0; i < L->mmc_nblocks && i < 31; i++) if (L->mmc_cache[i].size) s++; if (s) cov->probes[Q_CACHE_WARM]++; cov->state_bits[(s * 8 + fill) >> 3] |= (unsigned char)(1u << ((s * 8 + fill) & 7)); }
    if (L->mzdcache && count_size(sizeof(mzd_t) * 64 + 64) > hb0) cov->probes[Q_HEADER_POOL_GREW]++;
    /* prefix phase balance: a temporary leaked by one of the prefix calls is C11's business whatever the world */
    L->m4ri_mmc_cleanup();
    size_t live1 = heap_live_count();
    uint64_t dig1 = heap_live_digest();
    if (!viol && (live1 != live0 || dig1 != dig0)) {
      fprintf(stderr, "ledger: %zu live library blocks after the history prefix, %zu before\n", live1, live0);
      heap_iter_live(dump_live, &viol_site); /* who allocated them: recorded before the finalisation below replaces the code book blocks */
      if (really_leaked(L)) flag(HX_LEAK, k, -2, "library allocations outlive a call of the history prefix although everything it returned was freed");
      else { viol_site = 0; leak_bt[0] = 0; }
    }
    /* the probe call */
    sim_shared->aux[2] = 1;
    ctx_init(&c, L);
    uint64_t rec0 = heap_stats.recycled_hits;
    for (int i = 0; i < nl && !viol; i++) {
      if (kinds[i] != 'b') continue;
      if (strstr(lines[i], " junk ") && k > 0) cov->probes[Q_JUNK_DEST]++;
      int rc = prog_exec_line(&c, lines[i]);
      if (rc == 1 || rc < 0) { sim_shared->aux[1] = 1; snprintf(sim_shared->note, sizeof sim_shared->note, "skip probe: %.80s (%s)", lines[i], c.skipwhy); return; }
      if (!strncmp(lines[i], "op ", 3)) {
        cov->calls++;
        int pr = ctx_check_padding(&c);
        if (pr >= 0) { char b[120]; snprintf(b, sizeof b, "register %d after: %.80s", pr, lines[i]); flag(HX_DIRTY_PADDING, k, i, b); }
      }
    }
    if (heap_stats.recycled_hits != rec0) cov->probes[Q_RECYCLED_IN_PROBE]++;
    cov->stride_dirty += (uint64_t)c.pad_stride_dirty;
    uint64_t out = ctx_hash(&c);
    simlog_u64(out);
    if (k == 0) { out0 = out; have0 = 1; }
    else if (have0 && out != out0 && !viol) {
      char b[160];
      snprintf(b, sizeof b, "world %d (fill %d, recycle %d) outcome %016llx, world 0 outcome %016llx", k, fill, rec, (unsigned long long)out, (unsigned long long)out0);
      flag(HX_OUTCOME_DIFFERS, k, -1, b);
    }
    ctx_free_all(&c);
    heap_viol_t hv = heap_take_violation();
    if (hv.kind != HV_NONE) { viol_site = (uint64_t)(uintptr_t)hv.site; flag(HX_INVALID_FREE, k, -1, hv.kind == HV_DOUBLE_FREE ? "double free" : "free of unknown pointer"); }
    /* C11: every temporary released */
    if (!viol) {
      int room = header_room(L);
      if (room < g_header_room) { char b[140]; snprintf(b, sizeof b, "header pool has room for %d headers before it grows, %d on the pristine library: a slot is still occupied although the program freed everything", room, g_header_room); flag(HX_HEADER_SLOT_LEAK, k, -1, b); }
    }
    L->m4ri_mmc_cleanup();
    if (!viol && (heap_live_count() != live0 || heap_live_digest() != dig0)) {
      fprintf(stderr, "ledger: %zu live library blocks, %zu before\n", heap_live_count(), live0);
      heap_iter_live(dump_live, &viol_site);
      if (really_leaked(L)) {
        flag(HX_LEAK, k, -1, "library allocations outlive the call although everything it returned was freed");
        if (k > 0) sim_shared->aux[7] = 1; /* the same call released everything in world 0: whether it leaks depends on heap content / history -> C10 */
      } else { viol_site = 0; leak_bt[0] = 0; }
    }
  }
  free(copy);
  sim_shared->aux[3] = viol;
  sim_shared->aux[4] = viol_world;
  sim_shared->aux[5] = viol_line;
  sim_shared->fail_site = viol_site;
  snprintf(sim_shared->note, sizeof sim_shared->note, "%s", viol_note);
  snprintf((char *)SIM_SHARED_EXT + 200000, 256, "%s", leak_bt);
  sim_shared->result_hash = simlog_hash;
  sim_shared->completed = 1;
}

/* ---------------- die-before-touch (C11 clause 2) ---------------- */
#define NSNAP 6
static struct { mzd_t *M; word *copy; size_t words; } snaps[NSNAP];
static struct { mzp_t *P; rci_t *copy; } psnaps[3];
static int nsn, npsn;
static void snap_m(mzd_t *M) { if (!M || nsn >= NSNAP) return; size_t w = (size_t)M->nrows * (size_t)M->rowstride; snaps[nsn].M = M; snaps[nsn].words = w; snaps[nsn].copy = (word *)malloc(w * 8 + 8); if (w) memcpy(snaps[nsn].copy, M->data, w * 8); nsn++; }
static void snap_p(mzp_t *P) { if (!P || npsn >= 3) return; psnaps[npsn].P = P; psnaps[npsn].copy = (rci_t *)malloc((size_t)P->length * 4 + 4); memcpy(psnaps[npsn].copy, P->values, (size_t)P->length * 4); npsn++; }
static void on_abort_compare(void) {
  int ok = 1;
  for (int i = 0; i < nsn; i++) if (snaps[i].words && memcmp(snaps[i].copy, snaps[i].M->data, snaps[i].words * 8)) ok = 0;
  for (int i = 0; i < npsn; i++) if (memcmp(psnaps[i].copy, psnaps[i].P->values, (size_t)psnaps[i].P->length * 4)) ok = 0;
  sim_shared->operands_intact = ok;
}
static const char *ILL[] = { "mul", "addmul", "mul_m4rm", "addmul_m4rm", "mul_naive", "addmul_naive", "transpose", "copy", "concat", "stack", "add", "submatrix",
                             "ple", "pluq", "solve", "pluq_solve", "trsm_ul", "trsm_ll", "trsm_ur", "trsm_lr", "mzp_copy" };
#define NILL 21
typedef struct { const char *text; } illarg_t;
static mzd_t *mk(const lib_t *L, int r, int c, uint64_t s) { mzd_t *M = L->mzd_init(r, c); gen_fill(M, "rand", 128, s); return M; }
/* illdim NAME lib m l n which seed : dimension `which` of the operands is perturbed by delta */
static void ill_child(void *ud) {
  illarg_t *a = (illarg_t *)ud;
  char name[32], libn[32];
  int m, l, n, which, delta;
  unsigned long long s;
  const char *p = strstr(a->text, "illdim ");
  if (!p || sscanf(p, "illdim %31s %31s %d %d %d %d %d %llu", name, libn, &m, &l, &n, &which, &delta, &s) != 8) { sim_shared->aux[1] = 1; return; }
  const lib_t *L = lib_by_name(libn);
  if (!L || m < 1 || l < 1 || n < 1 || delta == 0) { sim_shared->aux[1] = 1; return; }
  m4sim_on_abort = on_abort_compare;
  int d = delta;
#define BAD(v) ((v) + d < 1 ? (v) + (d < 0 ? -d : d) : (v) + d)
  mzd_t *A = NULL, *B = NULL, *C = NULL;
  mzp_t *P = NULL, *Q = NULL;
  if (!strcmp(name, "mul") || !strcmp(name, "addmul") || !strcmp(name, "mul_m4rm") || !strcmp(name, "addmul_m4rm") || !strcmp(name, "mul_naive") || !strcmp(name, "addmul_naive")) {
    int cm = m, cn = n, bl = l;
    if (which % 3 == 0) bl = BAD(l); else if (which % 3 == 1) cm = BAD(m); else cn = BAD(n);
    A = mk(L, m, l, s); B = mk(L, bl, n, s + 1); C = mk(L, cm, cn, s + 2);
    snap_m(A); snap_m(B); snap_m(C);
    if (!strcmp(name, "mul")) L->mzd_mul(C, A, B, 0);
    else if (!strcmp(name, "addmul")) L->mzd_addmul(C, A, B, 0);
    else if (!strcmp(name, "mul_m4rm")) L->mzd_mul_m4rm(C, A, B, 0);
    else if (!strcmp(name, "addmul_m4rm")) L->mzd_addmul_m4rm(C, A, B, 0);
    else if (!strcmp(name, "mul_naive")) { if (which % 3 == 0) { sim_shared->aux[1] = 1; return; } L->mzd_mul_naive(C, A, B); }
    else { if (which % 3 == 0) { sim_shared->aux[1] = 1; return; } L->mzd_addmul_naive(C, A, B); }
  } else if (!strcmp(name, "transpose")) {
    A = mk(L, m, n, s); C = mk(L, which & 1 ? BAD(n) : n, which & 1 ? m : BAD(m), s + 1);
    snap_m(A); snap_m(C);
    L->mzd_transpose(C, A);
  } else if (!strcmp(name, "copy")) { /* only a too small target is refused */
    int dd = d < 0 ? d : -d;
    if ((which & 1 ? n : m) + dd < 1) { sim_shared->aux[1] = 1; return; }
    A = mk(L, m, n, s); C = mk(L, which & 1 ? m : m + dd, which & 1 ? n + dd : n, s + 1);
    snap_m(A); snap_m(C);
    L->mzd_copy(C, A);
  } else if (!strcmp(name, "concat")) {
    A = mk(L, m, l, s); B = mk(L, which % 3 == 0 ? BAD(m) : m, n, s + 1);
    C = mk(L, which % 3 == 1 ? BAD(m) : m, which % 3 == 2 ? BAD(l + n) : l + n, s + 2);
    snap_m(A); snap_m(B); snap_m(C);
    L->mzd_concat(C, A, B);
  } else if (!strcmp(name, "stack")) {
    A = mk(L, m, n, s); B = mk(L, l, which % 3 == 0 ? BAD(n) : n, s + 1);
    C = mk(L, which % 3 == 1 ? BAD(m + l) : m + l, which % 3 == 2 ? BAD(n) : n, s + 2);
    snap_m(A); snap_m(B); snap_m(C);
    L->mzd_stack(C, A, B);
  } else if (!strcmp(name, "add")) {
    A = mk(L, m, n, s); B = mk(L, which % 4 == 0 ? BAD(m) : m, which % 4 == 1 ? BAD(n) : n, s + 1);
    C = mk(L, which % 4 == 2 ? BAD(m) : m, which % 4 == 3 ? BAD(n) : n, s + 2);
    snap_m(A); snap_m(B); snap_m(C);
    L->mzd_add(C, A, B);
  } else if (!strcmp(name, "submatrix")) {
    int dd = d < 0 ? d : -d; /* only a too small target is refused (a larger one is accepted by design, like mzd_copy) */
    if ((which & 1 ? m : n) + dd < 1) { sim_shared->aux[1] = 1; return; }
    A = mk(L, m + 2, n + 2, s); C = mk(L, which & 1 ? m + dd : m, which & 1 ? n : n + dd, s + 1);
    snap_m(A); snap_m(C);
    L->mzd_submatrix(C, A, 1, 1, 1 + m, 1 + n);
  } else if (!strcmp(name, "ple") || !strcmp(name, "pluq")) {
    A = mk(L, m, n, s); P = L->mzp_init(which & 1 ? BAD(m) : m); Q = L->mzp_init(which & 1 ? n : BAD(n));
    snap_m(A); snap_p(P); snap_p(Q);
    if (!strcmp(name, "ple")) L->mzd_ple(A, P, Q, 0); else L->mzd_pluq(A, P, Q, 0);
  } else if (!strcmp(name, "solve")) {
    int mx = m > n ? m : n;
    A = mk(L, m, n, s); B = mk(L, BAD(mx), l, s + 1);
    snap_m(A); snap_m(B);
    L->mzd_solve_left(A, B, 0, 1);
  } else if (!strcmp(name, "pluq_solve")) {
    int mx = m > n ? m : n;
    A = mk(L, m, n, s);
    P = L->mzp_init(m); Q = L->mzp_init(n);
    rci_t r = L->mzd_pluq(A, P, Q, 0);
    mzp_t *P2 = L->mzp_init(which % 3 == 1 ? BAD(m) : m), *Q2 = L->mzp_init(which % 3 == 2 ? BAD(n) : n);
    int brows = mx;
    if (which % 3 == 0) { brows = n - (d < 0 ? -d : d); if (brows < 1) { sim_shared->aux[1] = 1; return; } } /* the wrapper refuses only B with fewer rows than A has columns */
    B = mk(L, brows, l, s + 1);
    snap_m(A); snap_m(B); snap_p(P2); snap_p(Q2);
    L->mzd_pluq_solve_left(A, r, P2, Q2, B, 0, 1);
  } else if (!strncmp(name, "trsm_", 5)) {
    int left = name[6] == 'l';
    int notsq = which & 1;
    A = L->mzd_init(m, notsq ? BAD(m) : m); gen_fill(A, name[5] == 'u' ? "uut" : "ult", 0, s);
    if (left) B = mk(L, notsq ? m : BAD(m), n, s + 1); else B = mk(L, n, notsq ? m : BAD(m), s + 1);
    snap_m(A); snap_m(B);
    if (!strcmp(name, "trsm_ul")) L->mzd_trsm_upper_left(A, B, 0);
    else if (!strcmp(name, "trsm_ll")) L->mzd_trsm_lower_left(A, B, 0);
    else if (!strcmp(name, "trsm_ur")) L->mzd_trsm_upper_right(A, B, 0);
    else L->mzd_trsm_lower_right(A, B, 0);
  } else if (!strcmp(name, "mzp_copy")) {
    int dd = d < 0 ? d : -d;
    if (m + dd < 1) { sim_shared->aux[1] = 1; return; }
    P = L->mzp_init(m + dd); Q = L->mzp_init(m);
    gen_perm(Q, "rand", s, m);
    snap_p(P); snap_p(Q);
    L->mzp_copy(P, Q);
  } else { sim_shared->aux[1] = 1; return; }
  sim_shared->completed = 1; /* returned normally from an ill-dimensioned call */
}

/* ---------------- generator ---------------- */
static void gen_program(uint64_t rseed, uint64_t idx, const char *tier, sbuf_t *o) {
  rng_t root = rng_make(rseed);
  rng_t rg = rng_split(&root, "probe"), rw = rng_split(&root, "worlds"), rk = rng_split(&root, "knobs");
  int thorough = !strcmp(tier, "thorough");
  int nops = gen_nops();
  const char *op = gen_all_ops[idx % (uint64_t)nops];
  const lib_t *L = m4sim_libs[(idx / (uint64_t)nops) % (uint64_t)m4sim_nlibs];
  sb_printf(o, "# m4sim engine=hist scenario=%s lib=%s\nlib %s\n", op, L->name, L->name);
  if ((idx / (uint64_t)nops) % 4 == 3 || (idx / (uint64_t)nops) % 16 == 14) sb_printf(o, "knobs 4096 32768 65536\n"); /* deep (and half of the flat) cases: smallest admissible caches */
  else if (rng_chance(&rk, 1, 2)) {
    long l1s[] = { 4096, 8192, 16384, 32768 }, l2s[] = { 32768, 65536, 262144, 1310720 }, l3s[] = { 65536, 262144, 1048576, 4194304 };
    long a = l1s[rng_below(&rk, 4)], b = l2s[rng_below(&rk, 4)], c = l3s[rng_below(&rk, 4)];
    if (b < a) b = a;
    if (c < b) c = b;
    sb_printf(o, "knobs %ld %ld %ld\n", a, b, c);
  }
  int K = thorough ? 8 : 4;
  sb_printf(o, "world 0 %d %d 0\n", FILL_ZERO, RECYCLE_OFF);
  for (int k = 1; k < K; k++) {
    int fill = 1 + (int)rng_below(&rw, FILL_NKINDS - 1);
    sb_printf(o, "world %d %d %d %llu\n", k, fill, 1 + (int)rng_below(&rw, 3), (unsigned long long)(rng_u64(&rw) >> 1));
    int np = (int)rng_below(&rw, thorough ? 24 : 10);
    for (int i = 0; i < np; i++) {
      sbuf_t t = { 0 };
      genopt_t gw = { 8 + (int)rng_below(&rw, 120) };
      const char *pop = gen_all_ops[rng_below(&rw, (uint64_t)nops)];
      gen_case(&rw, pop, &gw, &t, 8 + 4 * (i % 3), 2 + 2 * (i % 3));
      /* prefix every generated line; the registers of three consecutive calls stay live together, then all are freed */
      for (char *q = strtok(t.s, "\n"); q; q = strtok(NULL, "\n")) sb_printf(o, "prefix %d %s\n", k, q);
      free(t.s);
      if (i % 3 == 2 || i == np - 1) sb_printf(o, "prefix %d freeall\n", k);
    }
  }
  /* the ordinal of this case among the cases of its operation decides the coarse classes (size class, views, deep regimes), so that a
     quick batch holds each combination several times instead of leaving it to 48 draws */
  uint64_t st = idx / (uint64_t)nops;
  genopt_t g = { thorough ? 1200 : 400, 0 };
  g.strat1 = 1 + (int)(st % 1000000);
  if (st % 3 == 2 && st % 4 != 3) g.maxdim = 96;
  if (st % 4 == 1) g.winprob = 12; /* operands (and supplied destinations) that are views into larger matrices, at odd and even word offsets */
  if (st % 4 == 3) g.deep = 1;
  if (st % 16 == 6 || st % 16 == 14) { g.sliver = st % 16 == 6 ? 1 : 2; g.deep = 0; g.maxdim = thorough ? 1200 : 400; } /* extremely flat operands, with the smallest caches (knobs line above) in the second class */
  sbuf_t t = { 0 };
  gen_case(&rg, op, &g, &t, 0, 0);
  for (char *q = strtok(t.s, "\n"); q; q = strtok(NULL, "\n")) sb_printf(o, "probe %s\n", q);
  free(t.s);
}
static void gen_ill(uint64_t rseed, uint64_t idx, sbuf_t *o) {
  rng_t root = rng_make(rseed);
  rng_t r = rng_split(&root, "ill");
  const char *name = ILL[idx % NILL];
  const lib_t *L = m4sim_libs[(idx / NILL) % (uint64_t)m4sim_nlibs];
  int deltas[] = { 1, -1, 1, -1, 64, -64, 7, 1000 };
  sb_printf(o, "# m4sim engine=hist scenario=illdim_%s lib=%s\n", name, L->name);
  sb_printf(o, "illdim %s %s %d %d %d %d %d %llu\n", name, L->name, gen_dim(&r, 200), gen_dim(&r, 200), gen_dim(&r, 200), (int)rng_below(&r, 12), deltas[rng_below(&r, 8)], (unsigned long long)(rng_u64(&r) >> 1));
}

static const char *classify(const child_res_t *cr, int ill, const char **prop) {
  *prop = "C10";
  if (sim_shared->aux[1]) return "SKIPPED";
  if (ill) {
    *prop = "C11";
    if (cr->fate == FATE_SANITIZER) return "sanitizer_report";
    if (cr->fate == FATE_SEGV) return "segv";
    if (cr->fate == FATE_EXIT0) return hv_names[HX_ILL_RETURNED];
    if (cr->fate != FATE_DIE) return fate_names[cr->fate];
    if (sim_shared->stderr_bytes <= 0) return hv_names[HX_ILL_SILENT];
    if (sim_shared->operands_intact != 1) return hv_names[HX_ILL_TOUCHED];
    return "ok";
  }
  if (cr->fate == FATE_EXIT_OTHER && WIFEXITED(cr->status) && WEXITSTATUS(cr->status) == 88) return "memcheck_error"; /* run under valgrind --error-exitcode=88 */
  if (cr->fate != FATE_EXIT0) {
    /* attribution rule (DESIGN 2.9): dies in world 0 -> C11 (fault free crash); dies only in a later world -> the fate depended on history/heap: C10 */
    static char b[64];
    if (sim_shared->aux[0] == 0 || sim_shared->aux[2] == 0) { *prop = "C11"; snprintf(b, sizeof b, "faultfree_%s", fate_names[cr->fate]); } /* world 0, or a call of the history prefix (never executed in world 0) */
    else snprintf(b, sizeof b, "fate_depends_on_history_or_heap_%s", fate_names[cr->fate]);
    return b;
  }
  if (!sim_shared->completed) return "incomplete";
  int v = (int)sim_shared->aux[3];
  if (v == HX_LEAK || v == HX_HEADER_SLOT_LEAK || v == HX_INVALID_FREE) *prop = "C11";
  if (v == HX_LEAK && sim_shared->aux[7]) { *prop = "C10"; return "release_of_temporaries_depends_on_history_or_heap"; }
  return hv_names[v];
}

static void scen_of(const char *text, char *scen, size_t n) {
  const char *s = strstr(text, "scenario=");
  snprintf(scen, n, "?");
  if (s) { char b[64]; if (sscanf(s, "scenario=%63s", b) == 1) snprintf(scen, n, "%s", b); }
}

static int cmd_worker(int argc, char **argv) {
  if (argc < 7) return 2;
  uint64_t seed = strtoull(argv[2], NULL, 10), first = strtoull(argv[3], NULL, 10), count = strtoull(argv[4], NULL, 10);
  const char *tier = argv[5], *outdir = argv[6];
  double budget = argc > 7 ? atof(argv[7]) : 1e9, t0 = eng_now();
  int illmode = argc > 8 && !strcmp(argv[8], "illdim");
  char errpath[512], cur[512];
  snprintf(errpath, sizeof errpath, "%s/stderr-%llu.txt", outdir, (unsigned long long)first);
  snprintf(cur, sizeof cur, "%s/cur-%llu.prog", outdir, (unsigned long long)first);
  sbuf_t sb = { 0 };
  cov = (hcov_t *)SIM_SHARED_EXT;
  for (uint64_t idx = first; idx < first + count; idx++) {
    if (eng_now() - t0 > budget) { printf("B idx=%llu budget exhausted\n", (unsigned long long)idx); break; }
    sb_reset(&sb);
    child_res_t cr;
    if (illmode) { gen_ill(eng_run_seed(seed, "ill", idx), idx, &sb); eng_write_file(cur, sb.s); illarg_t a = { sb.s }; eng_fork_run(ill_child, &a, errpath, 30, &cr); }
    else {
      gen_program(eng_run_seed(seed, "hist", idx), idx, tier, &sb);
      eng_write_file(cur, sb.s);
      if (getenv("M4SIM_DUMP")) { /* only write the programs (used by the valgrind pass of the thorough tier) */
        char fn[512];
        snprintf(fn, sizeof fn, "%s/prog-%llu.prog", outdir, (unsigned long long)idx);
        eng_write_file(fn, sb.s);
        continue;
      }
      runarg_t a = { sb.s };
      eng_fork_run(child_run, &a, errpath, 90, &cr);
    }
    const char *prop;
    const char *cls = classify(&cr, illmode, &prop);
    char scen[64];
    scen_of(sb.s, scen, sizeof scen);
    if (strcmp(cls, "ok") && strcmp(cls, "SKIPPED")) {
      char fn[512], buf[300];
      snprintf(fn, sizeof fn, "%s/viol-%s%llu.prog", outdir, illmode ? "ill" : "", (unsigned long long)idx);
      eng_write_file(fn, sb.s);
      eng_first_line_matching(errpath, "rror", buf, sizeof buf);
      eng_find_lib_frame(errpath);
      printf("V idx=%llu prop=%s class=%s func=%s site=0x%llx bt=%s scen=%s world=%ld file=%s detail=%s | %s\n", (unsigned long long)idx, prop, cls, eng_top_lib_frame[0] ? eng_top_lib_frame : "-", (unsigned long long)sim_shared->fail_site, (char *)SIM_SHARED_EXT + 200000, scen, (long)sim_shared->aux[4], fn, sim_shared->note, buf);
    }
    if (!strcmp(cls, "SKIPPED")) printf("K idx=%llu scen=%s %s\n", (unsigned long long)idx, scen, sim_shared->note);
    printf("R idx=%llu class=%s scen=%s hash=%016llx\n", (unsigned long long)idx, cls, scen, (unsigned long long)sim_shared->result_hash);
    fflush(stdout);
  }
  int states = 0;
  for (int i = 0; i < 2048 * 8; i++) if (cov->state_bits[i >> 3] & (1u << (i & 7))) states++;
  printf("T forks=%llu states=%d worlds=%llu calls=%llu stride_padding_dirty=%llu", (unsigned long long)eng_forks, states, (unsigned long long)cov->worlds, (unsigned long long)cov->calls, (unsigned long long)cov->stride_dirty);
  for (int i = 0; i < Q_NQ; i++) printf(" p.%s=%llu", q_names[i], (unsigned long long)cov->probes[i]);
  printf("\n");
  return 0;
}

static int cmd_exec(int argc, char **argv) {
  if (argc < 3) return 2;
  char *text = eng_read_file(argv[2], NULL);
  if (!text) return 2;
  char errpath[512];
  snprintf(errpath, sizeof errpath, "%s.stderr", argv[2]);
  cov = (hcov_t *)SIM_SHARED_EXT;
  int ill = strstr(text, "illdim ") != NULL && !strstr(text, "probe ");
  child_res_t cr;
  if (ill) { illarg_t a = { text }; eng_fork_run(ill_child, &a, errpath, 30, &cr); }
  else { runarg_t a = { text }; eng_fork_run(child_run, &a, errpath, 90, &cr); }
  const char *prop;
  const char *cls = classify(&cr, ill, &prop);
  char buf[300];
  eng_first_line_matching(errpath, "rror", buf, sizeof buf);
  eng_find_lib_frame(errpath);
  printf("X class=%s prop=%s func=%s fate=%s site=0x%llx bt=%s world=%ld hash=%016llx detail=%s | %s\n", cls, prop, eng_top_lib_frame[0] ? eng_top_lib_frame : "-", fate_names[cr.fate], (unsigned long long)sim_shared->fail_site, (char *)SIM_SHARED_EXT + 200000, (long)sim_shared->aux[4], (unsigned long long)sim_shared->result_hash, sim_shared->note, buf);
  if (!getenv("M4SIM_KEEP_STDERR")) unlink(errpath);
  return 0;
}

int main(int argc, char **argv) {
  setvbuf(stdout, NULL, _IOLBF, 0);
  sim_shared_init();
  if (argc >= 2 && !strcmp(argv[1], "worker")) return cmd_worker(argc, argv);
  if (argc >= 2 && !strcmp(argv[1], "exec")) return cmd_exec(argc, argv);
  return 2;
}
