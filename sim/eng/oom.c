/* Engine `oom` (C20): for a generated scenario, EVERY allocation request of the
 * scenario is made to fail in turn (one forked child per fault position); the
 * child's fate must be the library's controlled abort.  DESIGN.md, C20. */
#define _GNU_SOURCE
#include "engutil.h"
#include "../core/sched.h"
#include <stdlib.h>
#include <unistd.h>

#define MAXLINES 96
static const char *EXTRA_SCEN[] = {"create", "to_png", "from_png", "from_jcf", "reinit", "header_overflow", "large_blocks" };
#define NEXTRA 7

typedef struct {
  const char *text;
  int fault_line; /* 1-based line before which the heap is armed, 0: none (only failnext lines in the text) */
  long nth;
  int dry;
} runarg_t;

static void child_run(void *ud) {
  runarg_t *a = (runarg_t *)ud;
  ctx_t c;
  ctx_init(&c, m4sim_libs[0]);
  heap_arm_fail(-1);
  heap_config(fnv1a(a->text, strlen(a->text), FNV0), FILL_A5, RECYCLE_OFF, 0); /* fixed non-zero content of fresh heap memory */
  const char *p = a->text;
  int lineno = 0, armed = 0;
  char line[512];
  while (*p) {
    const char *e = strchr(p, '\n');
    size_t len = e ? (size_t)(e - p) : strlen(p);
    if (len >= sizeof line) len = sizeof line - 1;
    memcpy(line, p, len); line[len] = 0;
    p = e ? e + 1 : p + len;
    lineno++;
    if (a->dry && lineno < 64) ((volatile long *)(sim_shared + 1))[lineno] = heap_request_count();
    if (!strncmp(line, "failnext ", 9)) { if (!armed) { heap_arm_fail(atol(line + 9)); armed = 1; } continue; }
    if (!armed && a->fault_line == lineno) { heap_arm_fail(a->nth); armed = 1; }
    int rc = prog_exec_line(&c, line);
    if (rc == 1 || rc < 0) { snprintf(sim_shared->note, sizeof sim_shared->note, "skip line %d: %s (%s)", lineno, line, c.skipwhy); sim_shared->aux[1] = 1; return; }
    if (!strncmp(line, "lib ", 4) && c.L->openmp) { /* OpenMP build: parallel regions run on the simulated runtime (team of 3, seeded coarse preemption) */
      sched_cfg_t sc;
      memset(&sc, 0, sizeof sc);
      sc.seed = fnv1a(a->text, strlen(a->text), FNV0); sc.mode = 1; sc.team_size = 3; sc.logp[YC_RUNTIME] = 1; sc.logp[YC_CRITICAL] = 1; sc.logp[YC_HEAP] = 2; sc.event_budget = (uint64_t)5e8;
      sched_reset(&sc);
      sched_enable(1);
    }
  }
  sched_enable(0);
  if (a->dry && lineno + 1 < 64) ((volatile long *)(sim_shared + 1))[lineno + 1] = heap_request_count();
  sim_shared->result_hash = ctx_hash(&c);
  ctx_free_all(&c);
  sim_shared->requests = heap_request_count();
  sim_shared->aux[2] = lineno;
  sim_shared->completed = 1;
}

static int g_omp_mode;
static const char *OMP_SCEN[] = { "mul_mp", "addmul_mp", "mul_m4rm", "ech_m4ri", "mul", "addmul_m4rm", "inv_m4ri" };
#define NOMP_SCEN 7
static void gen_scenario(uint64_t rseed, uint64_t idx, const char *tier, sbuf_t *o, char *scen, size_t scensz) {
  rng_t root = rng_make(rseed);
  rng_t rg = rng_split(&root, "gen");
  int nops = gen_nops();
  int total = g_omp_mode ? NOMP_SCEN : nops + NEXTRA;
  int which = (int)(idx % (uint64_t)total);
  const char *op = g_omp_mode ? OMP_SCEN[which] : which < nops ? gen_all_ops[which] : EXTRA_SCEN[which - nops];
  snprintf(scen, scensz, "%s", op);
  int cls = (int)((idx / (uint64_t)total) % 3);
  if (!strcmp(tier, "quick")) cls = (int)((idx / (uint64_t)total) % 2);
  int dims[] = { 24, 150, 420 };
  if (g_omp_mode) { dims[0] = 140; dims[1] = 300; dims[2] = 420; } /* large enough for sections / several chunks to exist */
  genopt_t g = { dims[cls], 0 };
  if (rng_chance(&rg, 1, 4)) g.winprob = 6; /* operands that are views: the library copies them into temporaries on several paths */
  const lib_t *L = m4sim_libs[rng_below(&rg, (uint64_t)m4sim_nlibs)];
  sb_printf(o, "# m4sim engine=oom scenario=%s lib=%s sizeclass=%d\n", op, L->name, cls);
  sb_printf(o, "lib %s\n", L->name);
  if (rng_chance(&rg, 1, 3)) sb_printf(o, "knobs 4096 32768 65536\n"); /* small caches: recursive regimes at moderate sizes */
  if (rng_chance(&rg, 1, 3)) { /* warm-up: leaves blocks in the block cache / header pool */
    genopt_t gw = { 64 };
    const char *wops[] = { "mul_m4rm", "ech_m4ri", "pluq", "transpose", "add" };
    gen_case(&rg, wops[rng_below(&rg, 5)], &gw, o, 8, 4);
    sb_printf(o, "freeall\n");
  }
  if (!strcmp(op, "create")) {
    int m = gen_dim(&rg, g.maxdim), n = gen_dim(&rg, g.maxdim);
    sb_printf(o, "mat 0 %d %d rand 128 %llu\n", m, n, (unsigned long long)(rng_u64(&rg) >> 1));
    sb_printf(o, "mat 1 %d %d zero 0 0\n", gen_dim(&rg, 8), 0);
    sb_printf(o, "perm 0 %d rand %llu\n", gen_dim(&rg, g.maxdim), (unsigned long long)(rng_u64(&rg) >> 1));
  } else if (!strcmp(op, "header_overflow")) { /* more than 1024 simultaneously live headers: the pool's 16 blocks are full, headers come from plain allocations */
    sb_printf(o, "mat 0 %d %d rand 128 %llu\n", 1 + (int)rng_below(&rg, 6), 1 + (int)rng_below(&rg, 130), (unsigned long long)(rng_u64(&rg) >> 1));
    sb_printf(o, "op window_burst 0 %d\n", 1026 + (int)rng_below(&rg, 8));
  } else if (!strcmp(op, "large_blocks")) { /* data blocks above __M4RI_MMC_THRESHOLD (= L3 size) bypass the block cache and may take a path of their own */
    int m = 760 + (int)rng_below(&rg, 260), n = 760 + (int)rng_below(&rg, 260);
    sb_printf(o, "knobs 4096 32768 65536\n");
    sb_printf(o, "mat 1 %d %d rand 128 %llu\n", m, n, (unsigned long long)(rng_u64(&rg) >> 1));
    const char *tails[] = { "op copy 0 1\n", "op transpose 0 1\n", "op add 0 1 1\n", "op mul_m4rm 0 1 2 0\n", "op ech_m4ri 1 1 0\n", "op stack 0 1 1\n" };
    int t = (int)rng_below(&rg, 6);
    if (t == 3) sb_printf(o, "mat 2 %d %d rand 128 %llu\n", n, 700 + (int)rng_below(&rg, 200), (unsigned long long)(rng_u64(&rg) >> 1));
    sb_printf(o, "%s", tails[t]);
  } else if (gen_case(&rg, op, &g, o, 0, 0) < 0) {
    sb_printf(o, "# unknown scenario\n");
  }
}

typedef struct { long n, die, viol, notfired, skipped; uint64_t hash; uint64_t sites[96]; int nsites; } scen_res_t;

static const char *viol_class(const child_res_t *r, int fired) {
  switch (r->fate) {
  case FATE_DIE: return (sim_shared->stderr_bytes > 0) ? NULL : "silent_abort";
  case FATE_EXIT0:
    if (sim_shared->aux[6]) return "hang_after_failed_allocation"; /* simulated runtime: no task runnable / event budget exhausted */
    return fired ? "completed_after_failed_allocation" : "HARNESS_not_fired";
  case FATE_SANITIZER: return "sanitizer_report";
  case FATE_SEGV: return "segv";
  case FATE_ABORT_FOREIGN: return "abort_not_from_library";
  case FATE_TIMEOUT: return "hang";
  default: return "other_fate";
  }
}

/* enumerate all fault positions of one scenario */
static int enumerate(const char *text, const char *scen, uint64_t idx, const char *outdir, const char *errpath, scen_res_t *out, int emit) {
  memset(out, 0, sizeof *out);
  runarg_t a = { text, 0, 0, 1 };
  child_res_t cr;
  /* the shared mapping is two pages: page 2 holds cumulative request counts per line */
  eng_fork_run(child_run, &a, errpath, 30, &cr);
  uint64_t h = fnv1a(text, strlen(text), FNV0);
  if (sim_shared->aux[1]) { out->skipped = 1; if (emit) printf("K idx=%llu scen=%s %s\n", (unsigned long long)idx, scen, sim_shared->note); return 0; }
  if (!sim_shared->completed) {
    /* fault-free run did not complete: not a C20 matter (attribution rule 2.9): report under C11 */
    char buf[300], fn[512];
    eng_first_line_matching(errpath, "rror", buf, sizeof buf);
    snprintf(fn, sizeof fn, "%s/viol-%llu-dry.prog", outdir, (unsigned long long)idx);
    eng_write_file(fn, text);
    if (emit) printf("V idx=%llu prop=C11 class=faultfree_%s site=0 scen=%s file=%s detail=%s\n", (unsigned long long)idx, fate_names[cr.fate], scen, fn, buf);
    out->viol++;
    return 0;
  }
  long N = sim_shared->requests;
  int nlines = (int)sim_shared->aux[2];
  long cum[66];
  for (int i = 0; i < 66; i++) cum[i] = 0;
  for (int i = 1; i <= nlines + 1 && i < 64; i++) cum[i] = ((volatile long *)(sim_shared + 1))[i];
  out->n = N;
  h = fnv1a(&N, sizeof N, h);
  /* dedupe reported violations per (class, site) */
  struct { const char *cls; uint64_t site; long count; } seen[16];
  int nseen = 0;
  for (int ln = 1; ln <= nlines && ln < 63; ln++) {
    long cnt = cum[ln + 1] - cum[ln];
    for (long j = 0; j < cnt; j++) {
      runarg_t b = { text, ln, j, 0 };
      eng_fork_run(child_run, &b, errpath, 30, &cr);
      int fired = sim_shared->fail_fired;
      uint64_t site = sim_shared->fail_site;
      const char *vc = viol_class(&cr, fired);
      if (fired) {
        int q;
        for (q = 0; q < out->nsites; q++) if (out->sites[q] == site) break;
        if (q == out->nsites && out->nsites < 96) out->sites[out->nsites++] = site;
      }
      int code = cr.fate * 2 + fired;
      h = fnv1a(&code, sizeof code, h);
      h = fnv1a(&site, sizeof site, h);
      if (!vc) { out->die++; continue; }
      if (!strncmp(vc, "HARNESS", 7)) { out->notfired++; continue; }
      out->viol++;
      int k;
      for (k = 0; k < nseen; k++) if (seen[k].cls == vc && seen[k].site == site) break;
      if (k < nseen) { seen[k].count++; continue; }
      if (nseen < 16) { seen[nseen].cls = vc; seen[nseen].site = site; seen[nseen].count = 1; nseen++; }
      /* write the replay file: program with the fault attached to its line */
      sbuf_t rp = { 0 };
      const char *p = text;
      int l2 = 0;
      while (*p) {
        const char *e = strchr(p, '\n');
        size_t len = e ? (size_t)(e - p + 1) : strlen(p);
        l2++;
        if (l2 == ln) sb_printf(&rp, "failnext %ld\n", j);
        sb_printf(&rp, "%.*s", (int)len, p);
        p += len;
      }
      char fn[512], buf[300];
      snprintf(fn, sizeof fn, "%s/viol-%llu-%d-%ld.prog", outdir, (unsigned long long)idx, ln, j);
      eng_write_file(fn, rp.s);
      free(rp.s);
      eng_first_line_matching(errpath, "ERROR", buf, sizeof buf);
      if (emit) printf("V idx=%llu prop=C20 class=%s site=0x%llx scen=%s file=%s detail=%s\n", (unsigned long long)idx, vc, (unsigned long long)site, scen, fn, buf);
    }
  }
  out->hash = h;
  return 0;
}

static int cmd_worker(int argc, char **argv) {
  if (argc < 7) return 2;
  uint64_t seed = strtoull(argv[2], NULL, 10), first = strtoull(argv[3], NULL, 10), count = strtoull(argv[4], NULL, 10);
  const char *tier = argv[5], *outdir = argv[6];
  double budget = argc > 7 ? atof(argv[7]) : 1e9, t0 = eng_now();
  g_omp_mode = argc > 8 && !strcmp(argv[8], "omp");
  char errpath[512], cur[512];
  snprintf(errpath, sizeof errpath, "%s/stderr-%llu.txt", outdir, (unsigned long long)first);
  snprintf(cur, sizeof cur, "%s/cur-%llu.prog", outdir, (unsigned long long)first);
  sbuf_t sb = { 0 };
  for (uint64_t idx = first; idx < first + count; idx++) {
    if (eng_now() - t0 > budget) { printf("B idx=%llu budget exhausted\n", (unsigned long long)idx); break; }
    sb_reset(&sb);
    char scen[64];
    gen_scenario(eng_run_seed(seed, "oom", idx), idx, tier, &sb, scen, sizeof scen);
    eng_write_file(cur, sb.s);
    scen_res_t r;
    enumerate(sb.s, scen, idx, outdir, errpath, &r, 1);
    const char *libn = strstr(sb.s, "lib=");
    char lib[32] = "?";
    if (libn) sscanf(libn, "lib=%31s", lib);
    printf("R idx=%llu scen=%s lib=%s n=%ld die=%ld viol=%ld notfired=%ld skipped=%ld hash=%016llx sites=", (unsigned long long)idx, scen, lib, r.n, r.die, r.viol, r.notfired, r.skipped, (unsigned long long)r.hash);
    for (int q = 0; q < r.nsites; q++) printf("%s%llx", q ? "," : "", (unsigned long long)r.sites[q]);
    printf("\n");
    fflush(stdout);
  }
  printf("T forks=%llu heap_fails_fired_in_parent=%llu\n", (unsigned long long)eng_forks, (unsigned long long)heap_stats.fails_fired);
  return 0;
}

/* exec FILE : a program with exactly one failnext line -> one faulted run; without -> full enumeration */
static int cmd_exec(int argc, char **argv) {
  if (argc < 3) return 2;
  char *text = eng_read_file(argv[2], NULL);
  if (!text) { fprintf(stderr, "cannot read %s\n", argv[2]); return 2; }
  char errpath[512];
  snprintf(errpath, sizeof errpath, "%s.stderr", argv[2]);
  char scen[64] = "?";
  const char *s = strstr(text, "scenario=");
  if (s) sscanf(s, "scenario=%63s", scen);
  if (!strstr(text, "failnext ")) { /* fault-free execution only */
    runarg_t d = { text, 0, 0, 1 };
    child_res_t dr;
    eng_fork_run(child_run, &d, errpath, 30, &dr);
    char buf[300];
    eng_first_line_matching(errpath, "rror", buf, sizeof buf);
    if (sim_shared->aux[1]) printf("X class=SKIPPED scen=%s detail=%s\n", scen, sim_shared->note);
    else if (!sim_shared->completed) printf("X class=faultfree_%s prop=C11 scen=%s hash=0 detail=%s\n", fate_names[dr.fate], scen, buf);
    else printf("X class=ok_faultfree_completed scen=%s requests=%ld hash=%016llx\n", scen, (long)sim_shared->requests, (unsigned long long)sim_shared->result_hash);
    if (!getenv("M4SIM_KEEP_STDERR")) unlink(errpath);
    return 0;
  }
  runarg_t a = { text, 0, 0, 0 };
  child_res_t cr;
  eng_fork_run(child_run, &a, errpath, 30, &cr);
  int fired = sim_shared->fail_fired;
  const char *vc = sim_shared->aux[1] ? "SKIPPED" : viol_class(&cr, fired);
  char buf[300];
  eng_first_line_matching(errpath, "ERROR", buf, sizeof buf);
  printf("X class=%s fate=%s fired=%d site=0x%llx stderr_bytes=%ld scen=%s detail=%s\n", vc ? vc : "ok_controlled_abort", fate_names[cr.fate], fired, (unsigned long long)sim_shared->fail_site, (long)sim_shared->stderr_bytes, scen, buf);
  if (!getenv("M4SIM_KEEP_STDERR")) unlink(errpath);
  return 0;
}

int main(int argc, char **argv) {
  setvbuf(stdout, NULL, _IOLBF, 0);
  sim_shared_init(); /* one shared page: control block, followed by per-line cumulative request counts */
  if (argc >= 2 && !strcmp(argv[1], "worker")) return cmd_worker(argc, argv);
  if (argc >= 2 && !strcmp(argv[1], "exec")) return cmd_exec(argc, argv);
  fprintf(stderr, "usage: oom worker SEED FIRST COUNT TIER OUTDIR [BUDGET_S] | oom exec FILE\n");
  return 2;
}
