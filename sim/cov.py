#!/usr/bin/env python3
"""Line coverage of /repo/m4ri under the engines' own workloads (gcc --coverage build of the library variants).
Not a check: a measurement used to find library code no workload reaches (DESIGN.md section 8).
usage: cov.py [--runs N] [--engines hist,oom,fs,alloc,cfg,thr,omp]   -> prints per-file and per-function coverage, writes sim/campaign/coverage.txt"""
import os, sys, subprocess, re, glob, collections, shutil
HERE = os.path.dirname(os.path.abspath(__file__))
sys.path.insert(0, HERE)
import build
from build import Builder, Variant
build.FLAVOURS["cov"] = ["-O0", "-g", "--coverage"]
build.FLAVOUR_LINK["cov"] = ["--coverage"]

ENGINES = {
    "hist": (["gen.c", "eng/engutil.c", "eng/hist.c"], ("heap.c", "die.c", "fs.c", "sched.c"), []),
    "oom": (["gen.c", "eng/engutil.c", "eng/oom.c"], ("heap.c", "die.c", "fs.c", "sched.c"), []),
    "fs": (["gen.c", "eng/engutil.c", "eng/fs.c"], ("heap.c", "die.c", "fs.c"), []),
    "alloc": (["gen.c", "eng/engutil.c", "eng/alloc.c"], ("heap.c", "die.c", "fs.c"), []),
    "illdim": (["gen.c", "eng/engutil.c", "eng/hist.c"], ("heap.c", "die.c", "fs.c", "sched.c"), ["illdim"]),
}
RUNS = {"hist": 1.0, "oom": 0.2, "fs": 0.03, "alloc": 1.0, "illdim": 0.7}  # relative to --runs: the quick tier's proportions


def main():
    a = sys.argv[1:]
    runs = 1400
    engines = ["hist", "illdim", "oom", "fs", "alloc", "omp"]
    i = 0
    while i < len(a):
        if a[i] == "--runs": runs = int(a[i + 1]); i += 2
        elif a[i] == "--engines": engines = a[i + 1].split(","); i += 2
        else: i += 1
    omp_engines = [e for e in engines if e == "omp"]
    engines = [e for e in engines if e != "omp"]
    b = Builder()
    try:
        # the names the engines expect; hist needs a `_p` twin? no: it takes whatever is linked
        vs = [Variant("def", flavour="cov", knobs=True), Variant("ts", mmc=0, mzdcache=0, flavour="cov", knobs=True),
              Variant("nosse", sse2=0, flavour="cov", knobs=True)]
        b.build_variants(vs)
        for e in engines:
            srcs, core, extra = ENGINES[e]
            exe = b.build_engine("cov_" + e, srcs, vs, "cov", core=core, extra_defs=("M4SIM_COV",))
            out = os.path.join(b.scratch, "out_" + e)
            procs = []
            nw = 16
            per = (int(runs * RUNS.get(e, 1.0)) + nw - 1) // nw
            for w in range(nw):
                d = os.path.join(out, str(w)); os.makedirs(d)
                procs.append(subprocess.Popen([exe, "worker", "20261002", str(w * per), str(per), "quick", d, "100"] + extra, stdout=subprocess.DEVNULL, stderr=subprocess.DEVNULL))
            for p in procs: p.wait()
            print("engine %s: %d runs done" % (e, per * nw), flush=True)
        if "omp" in omp_engines:
            ovs = [Variant("omp", openmp=1, mmc=1, mzdcache=0, flavour="cov", knobs=True), Variant("seq", flavour="cov", knobs=True),
                   Variant("ompn", sse2=0, openmp=1, mmc=1, mzdcache=0, flavour="cov", knobs=True), Variant("seqn", sse2=0, flavour="cov", knobs=True)]
            b.build_variants(ovs)
            exe = b.build_engine("cov_omp", ["gen.c", "eng/engutil.c", "eng/omp.c"], ovs, "cov", core=("heap.c", "die.c", "fs.c", "sched.c"), extra_defs=("M4SIM_COV",))
            out = os.path.join(b.scratch, "out_omp")
            procs = []
            per = (2880 + 15) // 16
            for w in range(16):
                d = os.path.join(out, str(w)); os.makedirs(d)
                procs.append(subprocess.Popen([exe, "worker", "20261002", str(w * per), str(per), "quick", d, "100"], stdout=subprocess.DEVNULL, stderr=subprocess.DEVNULL))
            for p in procs: p.wait()
            print("engine omp: %d runs done" % (per * 16), flush=True)
            vs = vs + ovs
        # gcov per variant
        lines = collections.defaultdict(lambda: collections.defaultdict(int))   # file -> line -> max count over variants
        funcs = collections.defaultdict(int)
        for v in vs:
            vdir = os.path.join(b.scratch, "v_" + v.name)
            for gcda in glob.glob(os.path.join(vdir, "*.gcda")):
                r = subprocess.run(["gcov", "-f", "-t", "-o", vdir, gcda], cwd=vdir, stdout=subprocess.PIPE, stderr=subprocess.DEVNULL, text=True)
                cur = None
                for ln in r.stdout.splitlines():
                    m = re.match(r"\s*(-|#####|=====|\d+\*?):\s*(\d+):(.*)$", ln)
                    if not m: continue
                    cnt, no, txt = m.groups()
                    no = int(no)
                    if no == 0:
                        mm = re.match(r"Source:(.*)$", txt)
                        if mm: cur = os.path.basename(mm.group(1))
                        continue
                    if cur is None or cnt == "-": continue
                    c = 0 if cnt in ("#####", "=====") else int(cnt.rstrip("*"))
                    lines[cur][no] = max(lines[cur][no], c)
                r = subprocess.run(["gcov", "-f", "-o", vdir, gcda], cwd=vdir, stdout=subprocess.PIPE, stderr=subprocess.DEVNULL, text=True)
                for m in re.finditer(r"Function '([^']+)'\nLines executed:([\d.]+)% of (\d+)", r.stdout):
                    funcs[m.group(1)] = max(funcs[m.group(1)], float(m.group(2)))
        rep = []
        tot = cov = 0
        for f in sorted(lines):
            if not (f.endswith(".c") or f.endswith(".h")): continue
            n = len(lines[f]); k = sum(1 for x in lines[f].values() if x > 0)
            tot += n; cov += k
            rep.append("%-28s %5d / %5d lines  %5.1f%%" % (f, k, n, 100.0 * k / max(n, 1)))
        rep.append("TOTAL %d / %d lines %.1f%%" % (cov, tot, 100.0 * cov / max(tot, 1)))
        rep.append("")
        rep.append("functions never executed (any variant):")
        for fn in sorted(funcs):
            if funcs[fn] == 0.0 and not fn.startswith("m4shim_"):
                rep.append("  " + fn)
        rep.append("")
        rep.append("functions below 70% line coverage:")
        for fn in sorted(funcs):
            if 0.0 < funcs[fn] < 70.0:
                rep.append("  %-40s %5.1f%%" % (fn, funcs[fn]))
        rep.append("")
        rep.append("uncovered lines per file:")
        for f in sorted(lines):
            unc = sorted(n for n, x in lines[f].items() if x == 0)
            if unc and (f.endswith(".c") or f.endswith(".h")):
                rep.append("  %s: %s" % (f, " ".join(map(str, unc))))
        txt = "\n".join(rep) + "\n"
        os.makedirs(os.path.join(HERE, "campaign"), exist_ok=True)
        open(os.path.join(HERE, "campaign", "coverage.txt"), "w").write(txt)
        print(txt)
    finally:
        b.cleanup()


if __name__ == "__main__":
    main()
