#ifndef M4SIM_GEN_H
#define M4SIM_GEN_H
#include "ops.h"
typedef struct {
  int maxdim;
  int winprob;  /* in 1/16: operand is a window into a larger owner */
  int deep;     /* the engine runs this case with the smallest cache knobs: steer dimensions into the recursive regimes (> 256, PLE beyond L3/8) */
  int sliver;   /* extremely flat operands: dimensions alternate between 1..4 and 20000..26000 (only for operations whose cost stays small) */
  int strat1;   /* 1 + ordinal of this case among the cases of its operation (0: none): enumerable classes (row width, aliasing mode) are cycled instead of drawn */
} genopt_t;
extern const char *const gen_all_ops[];
int gen_nops(void);
int gen_dim(rng_t *r, int maxd);
int gen_case(rng_t *r, const char *op, const genopt_t *g, sbuf_t *o, int rb, int pb);
#endif
