/* Compiled as LIBRARY code into every variant (gets the seams and the variant
 * prefix): out-of-line wrappers of header-inline functions the harness needs to
 * call, so that their malloc/free go through the heap seam like all library code. */
#include <m4ri/m4ri.h>
void m4shim_djb_free(djb_t *z) { djb_free(z); }
void m4shim_col_swap(mzd_t *M, rci_t a, rci_t b) { mzd_col_swap(M, a, b); }
void m4shim_row_swap(mzd_t *M, rci_t a, rci_t b) { mzd_row_swap(M, a, b); }
void m4shim_row_add_offset(mzd_t *M, rci_t dst, rci_t src, rci_t off) { mzd_row_add_offset(M, dst, src, off); }
void m4shim_col_swap_in_rows(mzd_t *M, rci_t a, rci_t b, rci_t r0, rci_t r1) { mzd_col_swap_in_rows(M, a, b, r0, r1); }
word m4shim_read_bits(mzd_t const *M, rci_t x, rci_t y, int n) { return mzd_read_bits(M, x, y, n); }
int m4shim_read_bits_int(mzd_t const *M, rci_t x, rci_t y, int n) { return mzd_read_bits_int(M, x, y, n); }
void m4shim_xor_bits(mzd_t *M, rci_t x, rci_t y, int n, word v) { mzd_xor_bits(M, x, y, n, v); }
void m4shim_and_bits(mzd_t *M, rci_t x, rci_t y, int n, word v) { mzd_and_bits(M, x, y, n, v); }
void m4shim_clear_bits(mzd_t *M, rci_t x, rci_t y, int n) { mzd_clear_bits(M, x, y, n); }
void m4shim_combine(mzd_t *C, rci_t cr, wi_t cb, mzd_t const *A, rci_t ar, wi_t ab, mzd_t const *B, rci_t br, wi_t bb) { mzd_combine(C, cr, cb, A, ar, ab, B, br, bb); }
word m4shim_hash(mzd_t const *A) { return mzd_hash(A); }
void m4shim_fprint(FILE *f, mzd_t const *A) { mzd_fprint(f, A); }
