/* Compiled as LIBRARY code into every variant (gets the seams and the variant
 * prefix): out-of-line wrappers of header-inline functions the harness needs to
 * call, so that their malloc/free go through the heap seam like all library code. */
#include <m4ri/m4ri.h>
void m4shim_djb_free(djb_t *z) { djb_free(z); }
void m4shim_col_swap(mzd_t *M, rci_t a, rci_t b) { mzd_col_swap(M, a, b); }
void m4shim_row_swap(mzd_t *M, rci_t a, rci_t b) { mzd_row_swap(M, a, b); }
void m4shim_row_add_offset(mzd_t *M, rci_t dst, rci_t src, rci_t off) { mzd_row_add_offset(M, dst, src, off); }
