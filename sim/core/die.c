/* Death seam, event log, process-fate classification. */
#define _GNU_SOURCE
#include "sim.h"
#include <signal.h>
#include <stdarg.h>
#include <stdlib.h>
#include <sys/mman.h>
#include <sys/wait.h>
#include <unistd.h>

uint64_t simlog_hash = FNV0;
uint64_t simlog_events;
FILE *simlog_trace;

void simlog_reset(void) { simlog_hash = FNV0; simlog_events = 0; }
void simlog(const char *fmt, ...) {
  char buf[256];
  va_list ap;
  va_start(ap, fmt);
  int n = vsnprintf(buf, sizeof buf, fmt, ap);
  va_end(ap);
  if (n < 0) n = 0;
  if (n >= (int)sizeof buf) n = sizeof buf - 1;
  simlog_hash = fnv1a(buf, (size_t)n, simlog_hash);
  simlog_hash = fnv1a("\n", 1, simlog_hash);
  simlog_events++;
  if (simlog_trace) { fputs(buf, simlog_trace); fputc('\n', simlog_trace); }
}

shared_page_t *sim_shared;
void (*m4sim_on_abort)(void);

void sim_shared_init(void) {
  if (sim_shared) return;
  void *p = mmap(NULL, SIM_SHARED_BYTES, PROT_READ | PROT_WRITE, MAP_SHARED | MAP_ANONYMOUS, -1, 0);
  if (p == MAP_FAILED) { perror("mmap"); _exit(2); }
  sim_shared = (shared_page_t *)p;
  memset((void *)sim_shared, 0, sizeof *sim_shared);
  sim_shared->operands_intact = -1;
}

/* the library objects' abort() */
void m4sim_abort(void) {
  if (sim_shared) {
    sim_shared->abort_entered = 1;
    fflush(stderr);
    off_t o = lseek(2, 0, SEEK_CUR);
    sim_shared->stderr_bytes = (long)o;
  }
  if (m4sim_on_abort) m4sim_on_abort();
  signal(SIGABRT, SIG_DFL);
  abort();
}

const char *fate_names[FATE_N] = { "exit0", "exit_other", "sanitizer", "m4ri_die", "abort_foreign", "segv", "signal_other", "timeout" };

int fate_classify(int st) {
  if (WIFEXITED(st)) {
    int c = WEXITSTATUS(st);
    if (c == 0) return FATE_EXIT0;
    if (c == 77) return FATE_SANITIZER;
    return FATE_EXIT_OTHER;
  }
  if (WIFSIGNALED(st)) {
    int s = WTERMSIG(st);
    if (s == SIGABRT) return (sim_shared && sim_shared->abort_entered) ? FATE_DIE : FATE_ABORT_FOREIGN;
    if (s == SIGSEGV || s == SIGBUS) return FATE_SEGV;
    if (s == SIGALRM || s == SIGVTALRM || s == SIGKILL) return FATE_TIMEOUT;
    return FATE_SIGNAL_OTHER;
  }
  return FATE_SIGNAL_OTHER;
}

/* sanitizer defaults: make reports classifiable (exit code 77), no leak checker (the ledger does that) */
__attribute__((used)) const char *__asan_default_options(void) {
  return "exitcode=77:detect_leaks=0:abort_on_error=0:allocator_may_return_null=1:handle_abort=0:detect_stack_use_after_return=0";
}
__attribute__((used)) const char *__ubsan_default_options(void) { return "exitcode=77:print_stacktrace=1:halt_on_error=1"; }
