/* Simulated file system (fopencookie streams over in-memory files) and simulated
 * clock.  The library objects' fopen/time/localtime are renamed to m4sim_* .
 * libpng's fread/fwrite on the FILE* the library hands it therefore go through
 * here too.  DESIGN.md 2.8. */
#define _GNU_SOURCE
#include "sim.h"
#include <errno.h>
#include <stdlib.h>

typedef struct {
  char *path;
  unsigned char *data;
  size_t n, cap;
  simfs_plan_t plan;
  int has_plan;
} sfile_t;

#define MAXFILES 64
static sfile_t files[MAXFILES];
static int nfiles;
static rng_t fsrng;
simfs_stats_t simfs_stats;

static int64_t clock_now = 1700000000, clock_jump = 0;

static sfile_t *lookup(const char *path) {
  for (int i = 0; i < nfiles; i++)
    if (files[i].path && !strcmp(files[i].path, path)) return &files[i];
  return NULL;
}
static sfile_t *create(const char *path) {
  sfile_t *f = lookup(path);
  if (f) return f;
  for (int i = 0; i < nfiles; i++)
    if (!files[i].path) { f = &files[i]; break; }
  if (!f) {
    if (nfiles == MAXFILES) return NULL;
    f = &files[nfiles++];
  }
  memset(f, 0, sizeof *f);
  f->path = strdup(path);
  return f;
}
void simfs_reset(uint64_t seed) {
  for (int i = 0; i < nfiles; i++) { free(files[i].path); free(files[i].data); }
  nfiles = 0;
  fsrng = rng_make(seed ^ 0x6673ULL);
}
void simfs_put(const char *path, const void *data, size_t n) {
  sfile_t *f = create(path);
  if (!f) return;
  free(f->data);
  f->data = (unsigned char *)malloc(n ? n : 1);
  memcpy(f->data, data, n);
  f->n = f->cap = n;
}
const unsigned char *simfs_get(const char *path, size_t *n) {
  sfile_t *f = lookup(path);
  if (!f) { if (n) *n = 0; return NULL; }
  if (n) *n = f->n;
  return f->data;
}
void simfs_plan(const char *path, const simfs_plan_t *plan) {
  sfile_t *f = create(path);
  if (!f) return;
  if (plan) { f->plan = *plan; f->has_plan = 1; } else f->has_plan = 0;
}
void simfs_remove(const char *path) {
  sfile_t *f = lookup(path);
  if (!f) return;
  free(f->path); free(f->data);
  memset(f, 0, sizeof *f);
}

typedef struct { sfile_t *f; size_t pos; int writing; int faults; } cookie_t;

static ssize_t ck_read(void *c, char *buf, size_t size) {
  cookie_t *k = (cookie_t *)c;
  sfile_t *f = k->f;
  simfs_stats.reads++;
  size_t end = f->n;
  if (k->faults) {
    if (f->plan.read_eio_at >= 0 && (long)k->pos >= f->plan.read_eio_at) {
      simfs_stats.read_eio++; simlog("fs read EIO pos=%zu", k->pos); errno = EIO; return -1;
    }
    if (f->plan.eof_at >= 0 && (size_t)f->plan.eof_at < end) end = (size_t)f->plan.eof_at;
    if (f->plan.read_eio_at >= 0 && (size_t)f->plan.read_eio_at < end) end = (size_t)f->plan.read_eio_at; /* deliver up to the bad block first */
  }
  if (k->pos >= end) {
    if (k->faults && f->plan.eof_at >= 0 && k->pos < f->n) simfs_stats.torn_eof++;
    if (k->faults && f->plan.read_eio_at >= 0 && (long)end == f->plan.read_eio_at && end < f->n) {
      simfs_stats.read_eio++; errno = EIO; return -1;
    }
    return 0;
  }
  size_t n = end - k->pos;
  if (n > size) n = size;
  if (k->faults && f->plan.short_reads > 0) {
    size_t cap = 1 + (size_t)rng_below(&fsrng, (uint64_t)f->plan.short_reads);
    if (n > cap) { n = cap; simfs_stats.short_reads++; }
  }
  memcpy(buf, f->data + k->pos, n);
  k->pos += n;
  simfs_stats.bytes_read += n;
  return (ssize_t)n;
}
static ssize_t ck_write(void *c, const char *buf, size_t size) {
  cookie_t *k = (cookie_t *)c;
  sfile_t *f = k->f;
  simfs_stats.writes++;
  if (k->faults && f->plan.write_fail_at >= 0 && (long)(k->pos + size) > f->plan.write_fail_at) {
    simfs_stats.write_failures++; simlog("fs write ENOSPC pos=%zu n=%zu", k->pos, size); errno = ENOSPC; return 0;
  }
  if (k->pos + size > f->cap) {
    size_t nc = (k->pos + size) * 2 + 64;
    f->data = (unsigned char *)realloc(f->data, nc);
    f->cap = nc;
  }
  memcpy(f->data + k->pos, buf, size);
  k->pos += size;
  if (k->pos > f->n) f->n = k->pos;
  simfs_stats.bytes_written += size;
  return (ssize_t)size;
}
static int ck_close(void *c) {
  cookie_t *k = (cookie_t *)c;
  int fail = k->faults && k->f->plan.close_fails;
  simfs_stats.closes++;
  if (fail) { simfs_stats.close_failures++; errno = EIO; }
  free(k);
  return fail ? -1 : 0;
}

static FILE *open_common(const char *path, const char *mode, int faults) {
  simfs_stats.opens++;
  sfile_t *f = lookup(path);
  int writing = mode[0] == 'w' || mode[0] == 'a';
  if (faults && f && f->has_plan && f->plan.open_errno) {
    simfs_stats.open_failures++; simlog("fs open fail errno=%d", f->plan.open_errno); errno = f->plan.open_errno; return NULL;
  }
  if (!writing) {
    if (!f || !f->data) { simfs_stats.open_failures++; errno = ENOENT; return NULL; }
  } else if (!f) {
    f = create(path);
    if (!f) { errno = ENFILE; return NULL; }
  }
  if (writing && mode[0] == 'w') f->n = 0;
  cookie_t *k = (cookie_t *)calloc(1, sizeof *k);
  k->f = f; k->pos = (mode[0] == 'a') ? f->n : 0; k->writing = writing; k->faults = faults && f->has_plan;
  cookie_io_functions_t io = { ck_read, ck_write, NULL, ck_close };
  FILE *fp = fopencookie(k, mode, io);
  if (!fp) { free(k); return NULL; }
  if (k->faults && f->plan.unbuffered) setvbuf(fp, NULL, _IONBF, 0);
  simlog("fs open %s mode=%s", path, mode);
  return fp;
}
FILE *m4sim_fopen(const char *path, const char *mode) { return open_common(path, mode, 1); }
FILE *simfs_open_harness(const char *path, const char *mode) { return open_common(path, mode, 0); }

void simclock_set(int64_t t, int64_t jump) { clock_now = t; clock_jump = jump; }
time_t m4sim_time(time_t *out) {
  simfs_stats.clock_reads++;
  time_t t = (time_t)clock_now;
  clock_now += clock_jump; /* the next reader sees a clock that moved (forwards or backwards) */
  if (out) *out = t;
  return t;
}
struct tm *m4sim_localtime(const time_t *t) {
  static struct tm tmv;
  simfs_stats.clock_reads++;
  gmtime_r(t, &tmv); /* pure function of *t: no TZ database, no environment */
  return &tmv;
}
