/* Heap seam: the library objects' malloc/calloc/realloc/posix_memalign/free are
 * renamed to m4sim_* by objcopy (library objects only), so libpng's, libc's and
 * the simulator's own allocations never pass here.  DESIGN.md 2.7. */
#define _GNU_SOURCE
#include "sim.h"
#include <errno.h>
#include <execinfo.h>
#include <stdlib.h>

#if defined(__SANITIZE_ADDRESS__)
#define SIM_ASAN 1
#else
#define SIM_ASAN 0
#endif

typedef struct {
  void *p;
  size_t size, align;
  uint32_t id;
  int op;
  const void *site;
  int live;
  void *bt[HEAP_BT_DEPTH]; /* call chain of the request (only when heap_bt_on) */
} blk_t;

/* open addressing table pointer -> index in recs (only live blocks are in the table) */
static blk_t *recs;
static size_t nrecs, caprecs;
static int64_t *tab; /* -1 empty, -2 tombstone, else index */
static size_t tabcap, tabused, tabtomb;

heap_stats_t heap_stats;
int heap_passthrough = 0;
void (*heap_on_alloc)(void *, size_t);
void (*heap_on_free)(void *, size_t);
void (*heap_on_call)(void);

int heap_bt_on;
static rng_t hrng;
static int cfg_fill = -1; /* -1: untouched content */
static int cfg_recycle = RECYCLE_OFF;
static size_t cfg_limit = (size_t)1 << 30;
static long arm_nth = -1, req_count = 0;
static int fail_fired = 0;
static const void *fail_site;
static int cur_op = -1;
static size_t live_n, live_bytes;
static uint64_t live_digest;
static uint32_t next_id = 1;
static uint32_t log_base; /* ids are logged relative to this, so that a forked run's log does not depend on what its parent allocated before */
static heap_viol_t pending_viol;

/* recycler */
typedef struct { void *p; size_t size, align; } rc_t;
#define RC_MAX 512
static rc_t rc[RC_MAX];
static int rcn;

static size_t hslot(const void *p) { return (size_t)(sm64_mix((uint64_t)(uintptr_t)p)) & (tabcap - 1); }

static void tab_grow(void) {
  size_t ncap = tabcap ? tabcap * 2 : 4096;
  if (tabcap && (tabused - tabtomb) * 4 < tabcap) ncap = tabcap; /* only tombstones: rehash in place size */
  int64_t *nt = (int64_t *)malloc(ncap * sizeof(int64_t));
  for (size_t i = 0; i < ncap; i++) nt[i] = -1;
  int64_t *old = tab;
  size_t oldcap = tabcap;
  tab = nt; tabcap = ncap; tabused = 0; tabtomb = 0;
  for (size_t i = 0; i < oldcap; i++)
    if (old[i] >= 0) {
      size_t s = hslot(recs[old[i]].p);
      while (tab[s] != -1) s = (s + 1) & (tabcap - 1);
      tab[s] = old[i]; tabused++;
    }
  free(old);
}
static int64_t tab_find(const void *p, size_t *slot_out) {
  if (!tabcap) return -1;
  size_t s = hslot(p);
  while (tab[s] != -1) {
    if (tab[s] >= 0 && recs[tab[s]].p == p) { if (slot_out) *slot_out = s; return tab[s]; }
    s = (s + 1) & (tabcap - 1);
  }
  return -1;
}
static void tab_insert(void *p, int64_t idx) {
  if ((tabused + 1) * 2 > tabcap) tab_grow();
  size_t s = hslot(p);
  while (tab[s] >= 0) s = (s + 1) & (tabcap - 1);
  if (tab[s] == -2) tabtomb--; else tabused++;
  tab[s] = idx;
}

static void fill_block(void *p, size_t n, int recycled) {
  int k = cfg_fill;
  if (k < 0 || n == 0) return;
  heap_stats.dirty_fills[k]++;
  switch (k) {
  case FILL_ZERO: memset(p, 0, n); break;
  case FILL_FF: memset(p, 0xFF, n); break;
  case FILL_A5: memset(p, 0xA5, n); break;
  case FILL_SMALLIDX: {
    int32_t *q = (int32_t *)p;
    size_t m = n / 4;
    for (size_t i = 0; i < m; i++) q[i] = (int32_t)(rng_u64(&hrng) & 15);
    memset((char *)p + m * 4, 0x01, n - m * 4);
    break;
  }
  case FILL_STALE:
    if (recycled) break; /* keep what the previous owner left */
    /* fall through */
  case FILL_RANDOM:
  default: {
    uint64_t *q = (uint64_t *)p;
    size_t m = n / 8;
    for (size_t i = 0; i < m; i++) q[i] = rng_u64(&hrng);
    unsigned char *t = (unsigned char *)p + m * 8;
    for (size_t i = 0; i < n - m * 8; i++) t[i] = (unsigned char)rng_u64(&hrng);
  }
  }
}

void heap_config(uint64_t seed, int fill_kind, int recycle, int shift64) {
  (void)shift64;
  hrng = rng_make(seed ^ 0x68656170ULL);
  cfg_fill = fill_kind;
  cfg_recycle = SIM_ASAN ? RECYCLE_OFF : recycle;
}
void heap_set_limit(size_t bytes) { cfg_limit = bytes; }
void heap_arm_fail(long nth) { arm_nth = nth; req_count = 0; fail_fired = 0; fail_site = NULL; }
int heap_fail_fired(void) { return fail_fired; }
const void *heap_fail_site(void) { return fail_site; }
long heap_request_count(void) { return req_count; }
void heap_set_op(int op) { cur_op = op; }
size_t heap_live_count(void) { return live_n; }
size_t heap_live_bytes(void) { return live_bytes; }
uint64_t heap_live_digest(void) { return live_digest; }
uint32_t heap_next_id(void) { return next_id; }
void heap_log_rebase(void) { log_base = next_id - 1; }
heap_viol_t heap_take_violation(void) { heap_viol_t v = pending_viol; pending_viol.kind = HV_NONE; return v; }
int heap_is_live(const void *p) { return tab_find(p, NULL) >= 0; }
size_t heap_block_size(const void *p) { int64_t i = tab_find(p, NULL); return i < 0 ? 0 : recs[i].size; }
int heap_block_id(const void *p) { int64_t i = tab_find(p, NULL); return i < 0 ? 0 : (int)recs[i].id; }
int heap_block_bt(const void *p, void **out, int n) {
  int64_t i = tab_find(p, NULL);
  if (i < 0) return 0;
  int k = 0;
  while (k < n && k < HEAP_BT_DEPTH && recs[i].bt[k]) { out[k] = recs[i].bt[k]; k++; }
  return k;
}
const void *heap_block_site(const void *p) { int64_t i = tab_find(p, NULL); return i < 0 ? NULL : recs[i].site; }
void heap_iter_live(heap_iter_cb cb, void *ud) {
  for (size_t s = 0; s < tabcap; s++)
    if (tab[s] >= 0) { blk_t *b = &recs[tab[s]]; cb(b->p, b->size, b->id, b->site, ud); }
}
void heap_drain_recycled(void) {
  for (int i = 0; i < rcn; i++) free(rc[i].p);
  rcn = 0;
}

static void *rc_take(size_t size, size_t align) {
  if (cfg_recycle == RECYCLE_OFF || rcn == 0) return NULL;
  int cand[RC_MAX], nc = 0;
  for (int i = 0; i < rcn; i++)
    if (rc[i].size == size && rc[i].align >= align) cand[nc++] = i;
  if (!nc) return NULL;
  int pick;
  switch (cfg_recycle) {
  case RECYCLE_LIFO: pick = cand[nc - 1]; break;
  case RECYCLE_FIFO: pick = cand[0]; break;
  default: pick = cand[rng_below(&hrng, (uint64_t)nc)]; break;
  }
  void *p = rc[pick].p;
  memmove(&rc[pick], &rc[pick + 1], (size_t)(rcn - pick - 1) * sizeof(rc_t));
  rcn--;
  return p;
}
static void rc_give(void *p, size_t size, size_t align) {
  if (cfg_recycle == RECYCLE_OFF || size == 0) { free(p); return; }
  if (rcn == RC_MAX) { free(rc[0].p); memmove(&rc[0], &rc[1], (RC_MAX - 1) * sizeof(rc_t)); rcn--; }
  rc[rcn].p = p; rc[rcn].size = size; rc[rcn].align = align; rcn++;
}

/* returns NULL on (injected or limit) failure */
static void *sim_alloc(size_t size, size_t align, int zero, const void *site) {
  if (heap_on_call) heap_on_call();
  heap_stats.requests++;
  heap_stats.bytes_requested += size;
  if (size == 0) heap_stats.zero_size++;
  else {
    heap_stats.requests_nonzero++;
    long me = req_count++;
    if (arm_nth >= 0 && me == arm_nth) {
      fail_fired = 1; fail_site = site; heap_stats.fails_fired++;
      if (sim_shared) { sim_shared->fail_fired = 1; sim_shared->fail_site = (uint64_t)(uintptr_t)site; }
      simlog("heap fail req=%ld size=%zu", me, size);
      return NULL;
    }
    if (size > cfg_limit || live_bytes + size > cfg_limit) {
      heap_stats.limit_refusals++;
      simlog("heap limit size=%zu", size);
      return NULL;
    }
  }
  int recycled = 0;
  void *p = size ? rc_take(size, align) : NULL;
  if (p) { recycled = 1; heap_stats.recycled_hits++; }
  else {
    if (align > 16) { if (posix_memalign(&p, align, size ? size : 1)) p = NULL; }
    else p = malloc(size ? size : 1);
    if (!p) return NULL;
    heap_stats.fresh++;
  }
  if (zero) memset(p, 0, size); else fill_block(p, size, recycled);
  if (nrecs == caprecs) { caprecs = caprecs ? caprecs * 2 : 4096; recs = (blk_t *)realloc(recs, caprecs * sizeof(blk_t)); }
  blk_t *b = &recs[nrecs];
  b->p = p; b->size = size; b->align = align; b->id = next_id++; b->op = cur_op; b->site = site; b->live = 1;
  if (heap_bt_on) {
    void *tmp[HEAP_BT_DEPTH + 3];
    int nb = backtrace(tmp, HEAP_BT_DEPTH + 3);
    for (int i = 0; i < HEAP_BT_DEPTH; i++) b->bt[i] = i + 3 < nb ? tmp[i + 3] : NULL; /* skip backtrace/sim_alloc/m4sim_* */
  } else b->bt[0] = NULL;
  tab_insert(p, (int64_t)nrecs);
  nrecs++;
  live_n++; live_bytes += size; live_digest ^= sm64_mix(b->id);
  simlog("heap alloc id=%u size=%zu al=%zu rc=%d", b->id - log_base, size, align, recycled);
  if (heap_on_alloc) heap_on_alloc(p, size);
  return p;
}

static void compact_recs(void) {
  /* drop dead records when they dominate, so week-long histories stay bounded */
  if (nrecs < 65536 || live_n * 2 > nrecs) return;
  size_t w = 0;
  for (size_t i = 0; i < nrecs; i++) if (recs[i].live) recs[w++] = recs[i];
  nrecs = w;
  for (size_t i = 0; i < tabcap; i++) tab[i] = -1;
  tabused = 0; tabtomb = 0;
  for (size_t i = 0; i < nrecs; i++) tab_insert(recs[i].p, (int64_t)i);
}

static int sim_release(void *p, const void *site) {
  if (heap_on_call) heap_on_call();
  if (!p) return 0;
  heap_stats.frees++;
  size_t slot;
  int64_t i = tab_find(p, &slot);
  if (i < 0) {
    /* unknown or already freed */
    int dbl = 0;
    uint32_t id = 0;
    for (size_t k = nrecs; k-- > 0 && k + 4096 > nrecs;)
      if (recs[k].p == p && !recs[k].live) { dbl = 1; id = recs[k].id; break; }
    if (pending_viol.kind == HV_NONE) {
      pending_viol.kind = dbl ? HV_DOUBLE_FREE : HV_INVALID_FREE; pending_viol.id = id; pending_viol.site = site;
    }
    simlog("heap BAD free dbl=%d", dbl);
    return -1;
  }
  blk_t *b = &recs[i];
  b->live = 0;
  tab[slot] = -2; tabtomb++;
  live_n--; live_bytes -= b->size; live_digest ^= sm64_mix(b->id);
  simlog("heap free id=%u", b->id > log_base ? b->id - log_base : 0);
  if (heap_on_free) heap_on_free(p, b->size);
  if (cfg_recycle != RECYCLE_OFF && cfg_fill != FILL_STALE && cfg_fill >= 0) memset(p, 0xDD, b->size);
  size_t sz = b->size, al = b->align;
  compact_recs();
  rc_give(p, sz, al);
  return 0;
}

/* ---- the seam entry points ---- */
void *m4sim_malloc(size_t size) {
  heap_stats.mallocs++;
  return sim_alloc(size, 16, 0, __builtin_return_address(0));
}
void *m4sim_calloc(size_t n, size_t sz) {
  heap_stats.callocs++;
  size_t tot;
  if (__builtin_mul_overflow(n, sz, &tot)) return NULL;
  return sim_alloc(tot, 16, 1, __builtin_return_address(0));
}
int m4sim_posix_memalign(void **out, size_t align, size_t size) {
  heap_stats.memaligns++;
  void *p = sim_alloc(size, align < 16 ? 16 : align, 0, __builtin_return_address(0));
  if (!p) return ENOMEM;
  *out = p;
  return 0;
}
/* the rest of the allocation family: a changed library may switch to them, and what it obtains there it will hand to free() */
void *m4sim_aligned_alloc(size_t align, size_t size) { heap_stats.memaligns++; return sim_alloc(size, align < 16 ? 16 : align, 0, __builtin_return_address(0)); }
void *m4sim_memalign(size_t align, size_t size) { heap_stats.memaligns++; return sim_alloc(size, align < 16 ? 16 : align, 0, __builtin_return_address(0)); }
void *m4sim_valloc(size_t size) { heap_stats.memaligns++; return sim_alloc(size, 4096, 0, __builtin_return_address(0)); }
char *m4sim_strdup(const char *s) { size_t n = strlen(s) + 1; char *p = (char *)sim_alloc(n, 16, 0, __builtin_return_address(0)); if (p) memcpy(p, s, n); return p; }
char *m4sim_strndup(const char *s, size_t k) { size_t n = strnlen(s, k); char *p = (char *)sim_alloc(n + 1, 16, 0, __builtin_return_address(0)); if (p) { memcpy(p, s, n); p[n] = 0; } return p; }
void m4sim_free(void *p) { sim_release(p, __builtin_return_address(0)); }
void *m4sim_realloc(void *old, size_t size) {
  const void *site = __builtin_return_address(0);
  heap_stats.reallocs++;
  if (!old) return sim_alloc(size, 16, 0, site);
  int64_t i = tab_find(old, NULL);
  if (i < 0) {
    if (pending_viol.kind == HV_NONE) { pending_viol.kind = HV_REALLOC_UNKNOWN; pending_viol.site = site; }
    return NULL;
  }
  size_t osz = recs[i].size;
  if (size == 0) { sim_release(old, site); return NULL; }
  void *p = sim_alloc(size, 16, 0, site); /* always moves: a legal realloc, and the harshest one */
  if (!p) return NULL;                   /* old block stays valid, as the standard says */
  memcpy(p, old, osz < size ? osz : size);
  sim_release(old, site);
  return p;
}

void *m4sim_reallocarray(void *old, size_t n, size_t sz) {
  size_t tot;
  if (__builtin_mul_overflow(n, sz, &tot)) return NULL;
  return m4sim_realloc(old, tot);
}
