/* m4sim — deterministic simulator core for malb/m4ri (see /verif/DESIGN.md).
 * Everything here is harness code: it is NOT compiled with the seam
 * redirections, so malloc/free/abort/fopen below are the real ones. */
#ifndef M4SIM_H
#define M4SIM_H
#include <stddef.h>
#include <stdint.h>
#include <stdio.h>
#include <string.h>
#include <time.h>

/* ---------- rng: splitmix64 with labelled sub-streams (DESIGN 2.3) ---------- */
typedef struct { uint64_t s; } rng_t;
static inline uint64_t sm64_mix(uint64_t z) {
  z = (z ^ (z >> 30)) * 0xbf58476d1ce4e5b9ULL;
  z = (z ^ (z >> 27)) * 0x94d049bb133111ebULL;
  return z ^ (z >> 31);
}
static inline uint64_t rng_u64(rng_t *r) { r->s += 0x9e3779b97f4a7c15ULL; return sm64_mix(r->s); }
static inline uint64_t fnv1a(const void *p, size_t n, uint64_t h) {
  const unsigned char *b = (const unsigned char *)p;
  for (size_t i = 0; i < n; i++) { h ^= b[i]; h *= 0x100000001b3ULL; }
  return h;
}
#define FNV0 0xcbf29ce484222325ULL
static inline rng_t rng_make(uint64_t seed) { rng_t r = { sm64_mix(seed ^ 0x6d34736972346d00ULL) }; return r; }
static inline rng_t rng_split(const rng_t *parent, const char *label) {
  rng_t r = { sm64_mix(parent->s ^ fnv1a(label, strlen(label), FNV0)) };
  return r;
}
static inline rng_t rng_split_n(const rng_t *parent, const char *label, uint64_t n) {
  rng_t r = { sm64_mix(sm64_mix(parent->s ^ fnv1a(label, strlen(label), FNV0)) + n * 0x9e3779b97f4a7c15ULL) };
  return r;
}
/* uniform in [0,n) ; n>0 */
static inline uint64_t rng_below(rng_t *r, uint64_t n) { return n ? rng_u64(r) % n : 0; }
static inline int rng_range(rng_t *r, int lo, int hi) { return lo + (int)rng_below(r, (uint64_t)(hi - lo + 1)); }
static inline int rng_chance(rng_t *r, int num, int den) { return (int)rng_below(r, (uint64_t)den) < num; }

/* ---------- event log: hash always, text only when tracing (never draws, never reads clocks) ---- */
extern uint64_t simlog_hash;
extern uint64_t simlog_events;
extern FILE *simlog_trace;
void simlog(const char *fmt, ...) __attribute__((format(printf, 1, 2)));
void simlog_reset(void);
static inline void simlog_u64(uint64_t v) { simlog_hash = fnv1a(&v, 8, simlog_hash); simlog_events++; }

/* ---------- heap seam + ledger (DESIGN 2.7) ---------- */
enum { FILL_ZERO = 0, FILL_FF, FILL_A5, FILL_RANDOM, FILL_SMALLIDX, FILL_STALE, FILL_NKINDS };
enum { RECYCLE_OFF = 0, RECYCLE_LIFO, RECYCLE_FIFO, RECYCLE_RANDOM };
enum { HV_NONE = 0, HV_INVALID_FREE, HV_DOUBLE_FREE, HV_REALLOC_UNKNOWN };
typedef struct {
  int kind;            /* HV_* */
  uint32_t id;         /* allocation id, 0 if unknown */
  const void *site;    /* return address of the offending call */
} heap_viol_t;
typedef struct {
  uint64_t requests, requests_nonzero, frees, fails_fired, recycled_hits, fresh, zero_size,
      limit_refusals, bytes_requested, reallocs, callocs, memaligns, mallocs, dirty_fills[FILL_NKINDS];
} heap_stats_t;
extern heap_stats_t heap_stats;
void heap_config(uint64_t seed, int fill_kind, int recycle, int shift64);
void heap_set_limit(size_t bytes);
void heap_arm_fail(long nth);   /* the nth (0-based) request with size>0 from now on fails; -1 disarms */
int heap_fail_fired(void);
const void *heap_fail_site(void);
long heap_request_count(void);  /* requests with size>0 since last arm */
void heap_set_op(int op);
size_t heap_live_count(void);
size_t heap_live_bytes(void);
uint64_t heap_live_digest(void); /* order independent digest of live allocation ids */
heap_viol_t heap_take_violation(void);
uint32_t heap_next_id(void);
void heap_log_rebase(void);
int heap_is_live(const void *p);          /* p is the base of a live library allocation */
size_t heap_block_size(const void *p);    /* size of live block with base p, 0 if unknown */
int heap_block_id(const void *p);
const void *heap_block_site(const void *p);
#define HEAP_BT_DEPTH 10
extern int heap_bt_on;                              /* record the call chain of every request (glibc backtrace) */
int heap_block_bt(const void *p, void **out, int n);
typedef void (*heap_iter_cb)(void *p, size_t size, uint32_t id, const void *site, void *ud);
void heap_iter_live(heap_iter_cb cb, void *ud);
void heap_drain_recycled(void); /* really release everything the recycler retains */
extern int heap_passthrough;    /* 1: seam is a plain pass-through (used before the simulator is configured) */
/* optional hooks for the scheduler/monitor: called on every alloc / free of a library block */
extern void (*heap_on_alloc)(void *p, size_t n);
extern void (*heap_on_free)(void *p, size_t n);
extern void (*heap_on_call)(void);   /* yield point */

/* ---------- death seam ---------- */
typedef struct {
  volatile int abort_entered;       /* m4sim_abort reached (from library code) */
  volatile long stderr_bytes;       /* bytes on fd 2 at that moment */
  volatile int fail_fired;          /* injected allocation failure fired */
  volatile uint64_t fail_site;      /* return address of the failing request */
  volatile int operands_intact;     /* die-before-touch verdict: 1 intact, 0 changed, -1 not checked */
  volatile long requests;           /* dry run: number of nonzero requests of the scenario */
  volatile int completed;           /* scenario ran to the end */
  volatile uint64_t result_hash;
  volatile long aux[8];
  char note[256];
} shared_page_t;
extern shared_page_t *sim_shared;
void sim_shared_init(void);
/* the mapping is SIM_SHARED_BYTES long: page 0 = control block (cleared before every forked run), the rest is an
 * engine-defined area that survives across runs (counters, visited-state bitmaps written by children) */
#define SIM_SHARED_BYTES (512 * 1024)
#define SIM_SHARED_EXT ((unsigned char *)sim_shared + 4096)
#define SIM_SHARED_EXT_BYTES (SIM_SHARED_BYTES - 4096)
extern void (*m4sim_on_abort)(void);

/* ---------- simulated file system + clock (DESIGN 2.8) ---------- */
typedef struct {
  int open_errno;      /* !=0: fopen fails with this errno */
  int short_reads;     /* >0: every read returns at most 1..short_reads bytes (seeded) */
  long read_eio_at;    /* >=0: reads fail with EIO once pos >= this */
  long eof_at;         /* >=0: file torn here: EOF at this offset */
  long write_fail_at;  /* >=0: write fails (ENOSPC) once pos+n > this */
  int close_fails;
  int unbuffered;      /* !=0: the stream is not buffered: every write of the program reaches the device at once, so a full device is met by the very
                          call that crosses write_fail_at (with stdio buffering it surfaces only at a flush, i.e. at a few positions of a given file) */
} simfs_plan_t;
typedef struct {
  uint64_t opens, open_failures, reads, short_reads, read_eio, torn_eof, writes, write_failures, closes,
      close_failures, bytes_read, bytes_written, clock_reads;
} simfs_stats_t;
extern simfs_stats_t simfs_stats;
void simfs_reset(uint64_t seed);
void simfs_put(const char *path, const void *data, size_t n);
const unsigned char *simfs_get(const char *path, size_t *n);
void simfs_plan(const char *path, const simfs_plan_t *plan); /* NULL: no faults */
void simfs_remove(const char *path);
FILE *simfs_open_harness(const char *path, const char *mode); /* same stream type, for foreign writers */
void simclock_set(int64_t t, int64_t jump);

/* process fate classification helper */
enum { FATE_EXIT0 = 0, FATE_EXIT_OTHER, FATE_SANITIZER, FATE_DIE, FATE_ABORT_FOREIGN, FATE_SEGV, FATE_SIGNAL_OTHER, FATE_TIMEOUT, FATE_N };
extern const char *fate_names[FATE_N];
int fate_classify(int wait_status);

#endif
