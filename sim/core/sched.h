/* Seeded scheduler over cooperative tasks, simulated OpenMP runtime, and the
 * happens-before access monitor (DESIGN.md 2.5, 2.6). */
#ifndef M4SIM_SCHED_H
#define M4SIM_SCHED_H
#include "sim.h"

#define SCHED_MAXTASK 320 /* 1 + 15 + 16*15 tasks for two nested levels of 16-thread teams, plus slack */
enum { YC_ACCESS = 0, YC_FUNC, YC_HEAP, YC_RUNTIME, YC_CRITICAL, YC_NCLASS };

typedef struct {
  uint64_t seed;
  int mode;               /* 0: no preemption (tasks run to completion / to blocking points), 1: random walk, 2: PCT-style, 3: replay list */
  int logp[YC_NCLASS];    /* random walk: switch probability 2^-logp per opportunity of that class (0 = class disabled) */
  int pct_d;              /* PCT: number of preemption points */
  uint64_t pct_events;    /* PCT: event count measured in a dry run */
  int team_size;          /* threads per parallel region (1..16) */
  int dynamic_team;       /* 1: every region draws its own size in 1..team_size */
  int nested;             /* 1: nested regions get a real team, 0: serialised (team of 1) */
  int critical_off;       /* CONTROL ONLY: critical sections do not exclude nor order (must make the monitor fire) */
  uint64_t event_budget;  /* liveness: abort the run after this many events */
  int monitor;            /* 1: access monitor on */
  int mutex_noorder;
} sched_cfg_t;

typedef struct {
  uint64_t events, switches, preemptions, regions, nested_regions, sections_handed, max_sections_one_thread, criticals, tasks_created,
      accesses, range_accesses, races, idle_threads, shared_granules, forced_choices, barriers, ws_chunks, tls_accesses;
  uint64_t interleaving_hash;
  int deadlock, budget_exceeded;
} sched_stats_t;
extern sched_stats_t sched_stats;

typedef struct {
  uintptr_t addr;
  int cur_task, prev_task, cur_write, prev_write;
  uintptr_t cur_pc, prev_pc;
} race_t;
#define SCHED_MAXRACES 32
extern race_t sched_races[SCHED_MAXRACES];
extern int sched_nraces;

void sched_reset(const sched_cfg_t *cfg);
/* explicit schedule (replay / shrinking): at global event `ev` switch to task `task` */
void sched_add_replay_point(uint64_t ev, int task);
/* the decisions taken in this run, as text lines "sched <ev> <task>\n" appended to buf */
int sched_dump_decisions(char *buf, size_t n);
int sched_spawn(void (*fn)(void *), void *arg);   /* simulated thread; returns task id */
void sched_join(int task);
void sched_join_all(void);
int sched_current(void);
void sched_yield_point(int cls);
void sched_enable(int on);  /* callbacks are inert until enabled (library constructors run before main) */

#endif
