/* Seeded scheduler (ucontext tasks), simulated OpenMP runtime (the GOMP_* / omp_*
 * entry points the -fopenmp objects import), and a FastTrack-style happens-before
 * access monitor driven by the compiler's -fsanitize=thread callbacks (no TSan
 * runtime is linked).  Exactly one task runs at a time; this file alone decides
 * which.  DESIGN.md 2.5 / 2.6.  Harness code: never instrumented itself. */
#define _GNU_SOURCE
#include "sched.h"
#include <stdlib.h>
#include <link.h>
#include <sys/mman.h>
#include <ucontext.h>
#include <unistd.h>

#define STACK_BYTES (512 * 1024)
enum { T_FREE = 0, T_RUNNABLE, T_BLOCKED_JOIN, T_BLOCKED_MUTEX, T_BLOCKED_BARRIER, T_DONE };

typedef struct {
  ucontext_t ctx;
  char *stack;
  int state;
  void (*fn)(void *);
  void *arg;
  int team, tnum, level;
  int wait_task, wait_mutex;
  int wait_team;
  char *tls;            /* this task's copy of the program's thread-local block while it is not running */
  void *tsd[32];        /* pthread_setspecific values */
  unsigned ws_seen, single_seen; /* work-sharing / single constructs this thread has encountered in its current team */
  int ws_cur;                    /* slot of the work-share it is in */
  int prio;
  uint32_t vc[SCHED_MAXTASK];
} task_t;

typedef struct {
  int used, n, level;
  int members[17];
  int sections_count, next_section;
  int sections_by[17];
  void (*fn)(void *);
  void *data;
  /* barrier */
  int bar_arrived; unsigned bar_gen;
  uint32_t bar_vc[SCHED_MAXTASK], bar_rel[SCHED_MAXTASK];
  /* dynamically scheduled work-sharing loops: a small ring indexed by the ordinal of the construct */
  struct { unsigned ordinal; long next, end, incr, chunk; int guided; } ws[8];
  unsigned single_done; /* highest ordinal of a `single` construct that has been claimed */
} team_t;

typedef struct { void *key; int owner; uint32_t vc[SCHED_MAXTASK]; int used; } mutex_t;

static task_t tasks[SCHED_MAXTASK];
static team_t teams[SCHED_MAXTASK];
#define NMUTEX 96
static mutex_t mutexes[NMUTEX];

static int cur;
static int enabled;
static sched_cfg_t cfg;
static rng_t srng;
sched_stats_t sched_stats;
race_t sched_races[SCHED_MAXRACES];
int sched_nraces;

static uint64_t ev;
static int64_t countdown[YC_NCLASS];
typedef struct { uint64_t ev; int task; } dec_t;
static dec_t *replay;
static int nreplay, capreplay, ireplay, replay_sorted;
static int dec_cmp(const void *a, const void *b);
static void sort_replay(void) { if (!replay_sorted) { qsort(replay, (size_t)nreplay, sizeof(dec_t), dec_cmp); replay_sorted = 1; } }
static dec_t *decisions;
static int ndec, capdec;

static void fatal(const char *why) {
  if (!strcmp(why, "deadlock")) sched_stats.deadlock = 1; else sched_stats.budget_exceeded = 1;
  if (sim_shared) {
    snprintf(sim_shared->note, sizeof sim_shared->note, "liveness: %s at event %llu (task %d)", why, (unsigned long long)ev, cur);
    sim_shared->aux[6] = !strcmp(why, "deadlock") ? 1 : 2;
  }
  _exit(0); /* runs are forked: the parent reads the verdict from the shared page */
}

/* ================= access monitor ================= */
typedef struct { uint32_t w, wpc, r[4], rpc[4]; } cell_t;
/* epoch = (task slot + 1) in the top 10 bits, that task's clock (low 22 bits) below */
#define EP_SHIFT 22
#define EP_CLK(e) ((e) & ((1u << EP_SHIFT) - 1))
#define EP_TID(e) ((int)((e) >> EP_SHIFT) - 1)
#define EP_MAKE(t, c) (((uint32_t)((t) + 1) << EP_SHIFT) | ((c) & ((1u << EP_SHIFT) - 1)))
#define PAGE_SHIFT 12
#define CELLS_PER_PAGE (1 << (PAGE_SHIFT - 2))
typedef struct { uintptr_t key; cell_t *cells; } pent_t;
static pent_t *ptab;
static size_t ptcap, ptused;
static uintptr_t last_key = (uintptr_t)-1;
static cell_t *last_cells;

static cell_t *page_lookup(uintptr_t key, int create) {
  if (key == last_key) return last_cells;
  if (!ptcap) { if (!create) return NULL; ptcap = 1 << 12; ptab = (pent_t *)calloc(ptcap, sizeof(pent_t)); }
  size_t s = (size_t)sm64_mix(key) & (ptcap - 1);
  while (ptab[s].cells) {
    if (ptab[s].key == key) { last_key = key; last_cells = ptab[s].cells; return last_cells; }
    s = (s + 1) & (ptcap - 1);
  }
  if (!create) return NULL;
  if ((ptused + 1) * 2 > ptcap) {
    pent_t *old = ptab;
    size_t oc = ptcap;
    ptcap *= 2;
    ptab = (pent_t *)calloc(ptcap, sizeof(pent_t));
    for (size_t i = 0; i < oc; i++)
      if (old[i].cells) { size_t q = (size_t)sm64_mix(old[i].key) & (ptcap - 1); while (ptab[q].cells) q = (q + 1) & (ptcap - 1); ptab[q] = old[i]; }
    free(old);
    s = (size_t)sm64_mix(key) & (ptcap - 1);
    while (ptab[s].cells) s = (s + 1) & (ptcap - 1);
  }
  ptab[s].key = key;
  ptab[s].cells = (cell_t *)calloc(CELLS_PER_PAGE, sizeof(cell_t));
  ptused++;
  last_key = key; last_cells = ptab[s].cells;
  return last_cells;
}
static void mon_clear_range(void *p, size_t n) {
  if (!n || !ptcap) return;
  uintptr_t a = (uintptr_t)p & ~(uintptr_t)3, e = ((uintptr_t)p + n + 3) & ~(uintptr_t)3;
  while (a < e) {
    uintptr_t key = a >> PAGE_SHIFT;
    uintptr_t pend = (key + 1) << PAGE_SHIFT;
    if (pend > e) pend = e;
    cell_t *c = page_lookup(key, 0);
    if (c) memset(&c[(a & ((1 << PAGE_SHIFT) - 1)) >> 2], 0, ((pend - a) >> 2) * sizeof(cell_t));
    a = pend;
  }
}
static void report_race(uintptr_t addr, int write, uintptr_t pc, uint32_t prev_epoch, uint32_t prev_pc, int prev_write) {
  sched_stats.races++;
  for (int i = 0; i < sched_nraces; i++)
    if (sched_races[i].cur_pc == pc && sched_races[i].prev_pc == prev_pc) return;
  if (sched_nraces >= SCHED_MAXRACES) return;
  race_t *r = &sched_races[sched_nraces++];
  r->addr = addr; r->cur_task = cur; r->prev_task = EP_TID(prev_epoch); r->cur_write = write; r->prev_write = prev_write;
  r->cur_pc = pc; r->prev_pc = prev_pc;
}
static inline void mon_granule(uintptr_t a, int write, uintptr_t pc) {
  cell_t *pg = page_lookup(a >> PAGE_SHIFT, 1);
  cell_t *c = &pg[(a & ((1 << PAGE_SHIFT) - 1)) >> 2];
  task_t *t = &tasks[cur];
  uint32_t me = EP_MAKE(cur, t->vc[cur]);
  uint32_t w = c->w;
  if (w && EP_TID(w) != cur && EP_CLK(w) > t->vc[EP_TID(w)]) report_race(a, write, pc, w, c->wpc, 1);
  if (!write) {
    int slot = -1, empty = -1, stale = -1;
    for (int i = 0; i < 4; i++) {
      uint32_t r = c->r[i];
      if (!r) { if (empty < 0) empty = i; continue; }
      int rt = EP_TID(r);
      if (rt == cur) { slot = i; break; }
      if (EP_CLK(r) <= t->vc[rt]) stale = i;
      else sched_stats.shared_granules += (c->w == 0); /* concurrently read granule (read-only sharing) */
    }
    if (slot < 0) slot = empty >= 0 ? empty : stale;
    if (slot >= 0) { c->r[slot] = me; c->rpc[slot] = (uint32_t)pc; }
  } else {
    for (int i = 0; i < 4; i++) {
      uint32_t r = c->r[i];
      if (!r) continue;
      int rt = EP_TID(r);
      if (rt != cur && EP_CLK(r) > t->vc[rt]) report_race(a, 1, pc, r, c->rpc[i], 0);
      c->r[i] = 0;
    }
    c->w = me; c->wpc = (uint32_t)pc;
  }
}
/* Thread-local storage: all simulated threads share one OS thread, hence one TLS block.  Each task gets its own copy of the
 * program's PT_TLS segment, swapped in and out at every context switch (a new task starts from the initialisation image, as a
 * new thread does), and accesses inside the block are not shared-memory accesses for the monitor.  Without this a library that
 * keeps scratch data in `__thread` / `threadprivate` variables - a correct way to be thread-safe - would be reported. */
static char *tls_base;
static size_t tls_size, tls_filesz;
static const char *tls_image;
static int tls_probed;
static int tls_cb(struct dl_phdr_info *info, size_t sz, void *d) {
  (void)sz; (void)d;
  if (info->dlpi_name && info->dlpi_name[0]) return 0; /* the main program comes first and has an empty name */
  for (int i = 0; i < info->dlpi_phnum; i++)
    if (info->dlpi_phdr[i].p_type == PT_TLS) {
      tls_size = info->dlpi_phdr[i].p_memsz; tls_filesz = info->dlpi_phdr[i].p_filesz;
      tls_image = (const char *)(info->dlpi_addr + info->dlpi_phdr[i].p_vaddr);
      tls_base = (char *)info->dlpi_tls_data;
    }
  return 1;
}
static void tls_probe(void) { if (!tls_probed) { tls_probed = 1; dl_iterate_phdr(tls_cb, NULL); if (!tls_base) tls_size = 0; } }
static void tls_fresh(int t) {
  if (!tls_size) return;
  if (!tasks[t].tls) tasks[t].tls = (char *)malloc(tls_size);
  memcpy(tasks[t].tls, tls_image, tls_filesz);
  memset(tasks[t].tls + tls_filesz, 0, tls_size - tls_filesz);
}
static inline void mon_access(void *addr, size_t n, int write, uintptr_t pc) {
  sched_stats.accesses++;
  if (!cfg.monitor) return;
  if (tls_size && (uintptr_t)addr - (uintptr_t)tls_base < tls_size) { sched_stats.tls_accesses++; return; }
  uintptr_t a = (uintptr_t)addr & ~(uintptr_t)3, e = (uintptr_t)addr + n;
  for (; a < e; a += 4) mon_granule(a, write, pc);
}

/* ================= vector clocks ================= */
static void vc_join(uint32_t *dst, const uint32_t *src) { for (int i = 0; i < SCHED_MAXTASK; i++) if (src[i] > dst[i]) dst[i] = src[i]; }

/* ================= scheduler ================= */
static void record_decision(int task) {
  if (ndec == capdec) { capdec = capdec ? capdec * 2 : 1024; decisions = (dec_t *)realloc(decisions, (size_t)capdec * sizeof(dec_t)); }
  decisions[ndec].ev = ev; decisions[ndec].task = task; ndec++;
}
static void switch_to(int t, int cls) {
  if (t == cur) return;
  int prev = cur;
  sched_stats.switches++;
  int code = cls * 1024 + t;
  sched_stats.interleaving_hash = fnv1a(&code, sizeof code, sched_stats.interleaving_hash ? sched_stats.interleaving_hash : FNV0);
  cur = t;
  if (tls_size) { /* the thread-local block follows the task */
    if (!tasks[prev].tls) tasks[prev].tls = (char *)malloc(tls_size);
    memcpy(tasks[prev].tls, tls_base, tls_size);
    if (tasks[t].tls) memcpy(tls_base, tasks[t].tls, tls_size);
  }
  swapcontext(&tasks[prev].ctx, &tasks[t].ctx);
}
static int pick_runnable(int exclude) { /* seeded choice among runnable tasks other than `exclude`; -1 if none */
  int cand[SCHED_MAXTASK], n = 0;
  for (int i = 0; i < SCHED_MAXTASK; i++) if (tasks[i].state == T_RUNNABLE && i != exclude) cand[n++] = i;
  if (!n) return -1;
  if (cfg.mode == 3) { /* replay: an explicit entry for this event wins, else lowest id */
    sort_replay();
    while (ireplay < nreplay && replay[ireplay].ev < ev) ireplay++;
    if (ireplay < nreplay && replay[ireplay].ev == ev) { int t = replay[ireplay++].task; if (t >= 0 && t < SCHED_MAXTASK && tasks[t].state == T_RUNNABLE && t != exclude) return t; }
    return cand[0];
  }
  if (cfg.mode == 0) return cand[0];
  return cand[rng_below(&srng, (uint64_t)n)];
}
/* the current task cannot continue: run somebody else */
static void schedule_forced(void) {
  int t = pick_runnable(cur);
  if (t < 0) fatal("deadlock");
  sched_stats.forced_choices++;
  record_decision(t);
  switch_to(t, YC_RUNTIME);
}
static int64_t sample_gap(int cls) {
  int lp = cfg.logp[cls];
  if (lp <= 0) return INT64_MAX / 2;
  /* geometric with p = 2^-lp */
  uint64_t u = rng_u64(&srng);
  double x = ((double)(u >> 11) + 1.0) / 9007199254740993.0;
  double g = -__builtin_log(x) * (double)((uint64_t)1 << lp);
  int64_t v = (int64_t)g;
  return v < 1 ? 1 : v;
}
void sched_yield_point(int cls) {
  if (!enabled) return;
  ev++;
  sched_stats.events = ev;
  if (ev > cfg.event_budget) fatal("event budget exceeded: a parallel region or thread never finishes");
  int target = -2;
  if (cfg.mode == 1) {
    if (--countdown[cls] > 0) return;
    countdown[cls] = sample_gap(cls);
    target = pick_runnable(cur);
  } else if (cfg.mode == 2 || cfg.mode == 3) {
    sort_replay();
    if (ireplay >= nreplay || ev < replay[ireplay].ev) return;
    while (ireplay < nreplay && replay[ireplay].ev < ev) ireplay++;
    if (ireplay >= nreplay || replay[ireplay].ev != ev) return;
    int t = replay[ireplay++].task;
    if (t < 0) target = pick_runnable(cur);
    else target = (t < SCHED_MAXTASK && tasks[t].state == T_RUNNABLE) ? t : -1;
  } else return;
  if (target < 0 || target == cur) return;
  sched_stats.preemptions++;
  record_decision(target);
  switch_to(target, cls);
}

static void tramp(void) {
  task_t *t = &tasks[cur];
  t->fn(t->arg);
  t->state = T_DONE;
  for (int i = 0; i < SCHED_MAXTASK; i++)
    if (tasks[i].state == T_BLOCKED_JOIN && tasks[i].wait_task == cur) tasks[i].state = T_RUNNABLE;
  schedule_forced();
  abort(); /* not reached */
}
static int new_task(void (*fn)(void *), void *arg, int team, int tnum, int level) {
  int id = -1;
  for (int i = 1; i < SCHED_MAXTASK; i++) if (tasks[i].state == T_FREE) { id = i; break; }
  if (id < 0) { /* reclaim finished tasks nobody waits for */
    for (int i = 1; i < SCHED_MAXTASK; i++) if (tasks[i].state == T_DONE) { tasks[i].state = T_FREE; if (id < 0) id = i; }
  }
  if (id < 0) fatal("out of task slots");
  task_t *t = &tasks[id];
  if (!t->stack) {
    t->stack = (char *)mmap(NULL, STACK_BYTES, PROT_READ | PROT_WRITE, MAP_PRIVATE | MAP_ANONYMOUS | MAP_STACK, -1, 0);
    if (t->stack == MAP_FAILED) fatal("mmap stack");
  }
  mon_clear_range(t->stack, STACK_BYTES); /* a new task's frames are fresh memory */
  getcontext(&t->ctx);
  t->ctx.uc_stack.ss_sp = t->stack;
  t->ctx.uc_stack.ss_size = STACK_BYTES;
  t->ctx.uc_link = NULL;
  makecontext(&t->ctx, tramp, 0);
  t->fn = fn; t->arg = arg; t->team = team; t->tnum = tnum; t->level = level;
  t->ws_seen = 0; t->single_seen = 0; t->ws_cur = 0;
  tls_fresh(id);
  memset(t->tsd, 0, sizeof t->tsd);
  t->state = T_RUNNABLE;
  /* fork edge: the child starts with everything the parent has done so far */
  uint32_t own = t->vc[id];
  memcpy(t->vc, tasks[cur].vc, sizeof t->vc);
  t->vc[id] = own + 1;
  tasks[cur].vc[cur]++;
  sched_stats.tasks_created++;
  return id;
}
static void join_task(int id) {
  while (tasks[id].state != T_DONE) {
    tasks[cur].state = T_BLOCKED_JOIN;
    tasks[cur].wait_task = id;
    schedule_forced();
  }
  vc_join(tasks[cur].vc, tasks[id].vc);
  tasks[cur].vc[cur]++;
  tasks[id].state = T_FREE;
}

void sched_enable(int on) { enabled = on; }
int sched_current(void) { return cur; }
int sched_spawn(void (*fn)(void *), void *arg) { int id = new_task(fn, arg, -1, 0, 0); sched_yield_point(YC_RUNTIME); return id; }
void sched_join(int id) { join_task(id); }
void sched_join_all(void) { for (int i = 1; i < SCHED_MAXTASK; i++) if (tasks[i].state != T_FREE) join_task(i); }

static void on_alloc(void *p, size_t n) { mon_clear_range(p, n); }
static void on_free(void *p, size_t n) { mon_clear_range(p, n); }
static void on_heap_call(void) { sched_yield_point(YC_HEAP); }

void sched_reset(const sched_cfg_t *c) {
  cfg = *c;
  if (cfg.team_size < 1) cfg.team_size = 1;
  if (cfg.team_size > 16) cfg.team_size = 16;
  if (!cfg.event_budget) cfg.event_budget = (uint64_t)4e9;
  srng = rng_make(cfg.seed ^ 0x7363686564ULL);
  memset(&sched_stats, 0, sizeof sched_stats);
  sched_nraces = 0;
  ev = 0; ndec = 0; ireplay = 0;
  if (cfg.mode != 3) nreplay = 0;
  for (int i = 0; i < YC_NCLASS; i++) countdown[i] = sample_gap(i);
  if (cfg.mode == 2) { /* PCT-style: d preemption points uniformly over the dry-run event count */
    nreplay = 0;
    for (int i = 0; i < cfg.pct_d; i++) sched_add_replay_point(1 + rng_below(&srng, cfg.pct_events ? cfg.pct_events : 1), -1);
  }
  for (int i = 0; i < SCHED_MAXTASK; i++) { tasks[i].state = T_FREE; tasks[i].team = -1; tasks[i].level = 0; }
  memset(teams, 0, sizeof teams);
  memset(mutexes, 0, sizeof mutexes);
  for (int i = 0; i < NMUTEX; i++) mutexes[i].owner = -1;
  cur = 0;
  tasks[0].state = T_RUNNABLE;
  heap_on_alloc = on_alloc; heap_on_free = on_free; heap_on_call = on_heap_call;
  tls_probe();
}
static int dec_cmp(const void *a, const void *b) { const dec_t *x = (const dec_t *)a, *y = (const dec_t *)b; return x->ev < y->ev ? -1 : x->ev > y->ev; }
void sched_add_replay_point(uint64_t e, int task) {
  if (nreplay == capreplay) { capreplay = capreplay ? capreplay * 2 : 256; replay = (dec_t *)realloc(replay, (size_t)capreplay * sizeof(dec_t)); }
  replay[nreplay].ev = e; replay[nreplay].task = task; nreplay++;
  replay_sorted = 0;
}
int sched_dump_decisions(char *buf, size_t n) {
  size_t k = 0;
  int i;
  for (i = 0; i < ndec && k + 40 < n; i++) k += (size_t)snprintf(buf + k, n - k, "sched %llu %d\n", (unsigned long long)decisions[i].ev, decisions[i].task);
  return i;
}

/* ================= simulated OpenMP runtime ================= */
static int omp_nthreads_var;
static int seq_sections, seq_next;
typedef struct { int team, tnum; } member_arg_t;
static member_arg_t margs[SCHED_MAXTASK][17];
static void team_thread(void *ud) {
  member_arg_t *m = (member_arg_t *)ud;
  team_t *tm = &teams[m->team];
  tm->fn(tm->data);
}
static void run_region(void (*fn)(void *), void *data, unsigned req, int sections) {
  if (!enabled) { /* not simulating: sequential semantics, sections handed out in order */
    int sc = seq_sections, sn = seq_next;
    seq_sections = sections; seq_next = 1;
    fn(data);
    seq_sections = sc; seq_next = sn;
    return;
  }
  task_t *me = &tasks[cur];
  int level = (me->team >= 0 ? me->level : 0) + 1;
  int n = cfg.team_size;
  if (cfg.dynamic_team) n = 1 + (int)rng_below(&srng, (uint64_t)cfg.team_size);
  if (req && (int)req < n) n = (int)req;
  if (!req && omp_nthreads_var > 0 && omp_nthreads_var < n) n = omp_nthreads_var;
  if (level > 1) { sched_stats.nested_regions++; if (!cfg.nested) n = 1; }
  int ti = -1;
  for (int i = 0; i < SCHED_MAXTASK; i++) if (!teams[i].used) { ti = i; break; }
  if (ti < 0) fatal("out of team slots");
  team_t *tm = &teams[ti];
  memset(tm, 0, sizeof *tm);
  tm->used = 1; tm->n = n; tm->level = level; tm->fn = fn; tm->data = data;
  tm->sections_count = sections; tm->next_section = 1;
  int saved_team = me->team, saved_tnum = me->tnum, saved_level = me->level;
  int master = cur;
  tm->members[0] = master;
  sched_stats.regions++;
  simlog("omp region team=%d level=%d sections=%d", n, level, sections);
  for (int i = 1; i < n; i++) {
    margs[ti][i].team = ti; margs[ti][i].tnum = i;
    tm->members[i] = new_task(team_thread, &margs[ti][i], ti, i, level);
  }
  unsigned saved_ws = me->ws_seen, saved_single = me->single_seen; int saved_wscur = me->ws_cur;
  tasks[master].team = ti; tasks[master].tnum = 0; tasks[master].level = level;
  tasks[master].ws_seen = 0; tasks[master].single_seen = 0; tasks[master].ws_cur = 0;
  sched_yield_point(YC_RUNTIME);
  fn(data);
  /* implicit barrier + join */
  for (int i = 1; i < n; i++) join_task(tm->members[i]);
  if (sections > 0) {
    int mx = 0, idle = 0;
    for (int i = 0; i < n; i++) { if (tm->sections_by[i] > mx) mx = tm->sections_by[i]; if (!tm->sections_by[i]) idle++; }
    if ((uint64_t)mx > sched_stats.max_sections_one_thread) sched_stats.max_sections_one_thread = (uint64_t)mx;
    sched_stats.idle_threads += (uint64_t)idle;
  }
  tasks[master].team = saved_team; tasks[master].tnum = saved_tnum; tasks[master].level = saved_level;
  tasks[master].ws_seen = saved_ws; tasks[master].single_seen = saved_single; tasks[master].ws_cur = saved_wscur;
  tm->used = 0;
  sched_yield_point(YC_RUNTIME);
}
void GOMP_parallel(void (*fn)(void *), void *data, unsigned num_threads, unsigned flags) { (void)flags; run_region(fn, data, num_threads, 0); }
void GOMP_parallel_sections(void (*fn)(void *), void *data, unsigned num_threads, unsigned count, unsigned flags) { (void)flags; run_region(fn, data, num_threads, (int)count); }
unsigned GOMP_sections_next(void) {
  if (!enabled || tasks[cur].team < 0) return seq_next <= seq_sections ? (unsigned)seq_next++ : 0; /* sequential fallback */
  team_t *tm = &teams[tasks[cur].team];
  sched_yield_point(YC_CRITICAL); /* who asks first is the scheduler's choice */
  unsigned r = 0;
  if (tm->next_section <= tm->sections_count) { r = (unsigned)tm->next_section++; tm->sections_by[tasks[cur].tnum]++; sched_stats.sections_handed++; }
  simlog("omp section %u -> thread %d", r, tasks[cur].tnum);
  sched_yield_point(YC_CRITICAL); /* in-flight state: section taken, not yet started */
  return r;
}
void GOMP_sections_end_nowait(void) {}
/* team barrier: everybody waits for everybody; everything done before it happens-before everything after it */
void GOMP_barrier(void) {
  if (!enabled || tasks[cur].team < 0) return;
  team_t *tm = &teams[tasks[cur].team];
  if (tm->n <= 1) return;
  sched_yield_point(YC_RUNTIME);
  vc_join(tm->bar_vc, tasks[cur].vc);
  tasks[cur].vc[cur]++;
  unsigned gen = tm->bar_gen;
  if (++tm->bar_arrived == tm->n) {
    tm->bar_arrived = 0;
    tm->bar_gen++;
    memcpy(tm->bar_rel, tm->bar_vc, sizeof tm->bar_rel);
    memset(tm->bar_vc, 0, sizeof tm->bar_vc);
    for (int i = 0; i < SCHED_MAXTASK; i++)
      if (tasks[i].state == T_BLOCKED_BARRIER && tasks[i].wait_team == tasks[cur].team) tasks[i].state = T_RUNNABLE;
  } else {
    while (tm->bar_gen == gen) {
      tasks[cur].state = T_BLOCKED_BARRIER;
      tasks[cur].wait_team = tasks[cur].team;
      schedule_forced(); /* a member that never arrives (it left the region) ends in "deadlock": a liveness violation */
    }
  }
  vc_join(tasks[cur].vc, tm->bar_rel);
  sched_stats.barriers++;
  sched_yield_point(YC_RUNTIME);
}
/* ---- work-sharing loops with a run-time schedule (dynamic / guided / runtime); static schedules are compiled inline ---- */
static int seq_ws_active; static long seq_ws_next, seq_ws_end, seq_ws_incr;
static int ws_start(long start, long end, long incr, long chunk, int guided, long *istart, long *iend);
static int ws_next(long *istart, long *iend) {
  if (!enabled || tasks[cur].team < 0) { /* sequential semantics: the whole range in one piece */
    if (!seq_ws_active) return 0;
    seq_ws_active = 0;
    if ((seq_ws_incr > 0 && seq_ws_next >= seq_ws_end) || (seq_ws_incr < 0 && seq_ws_next <= seq_ws_end)) return 0;
    *istart = seq_ws_next; *iend = seq_ws_end;
    return 1;
  }
  team_t *tm = &teams[tasks[cur].team];
  sched_yield_point(YC_CRITICAL); /* who takes the next chunk is the scheduler's choice */
  int k = tasks[cur].ws_cur;
  long n = tm->ws[k].next, e = tm->ws[k].end, inc = tm->ws[k].incr;
  if ((inc > 0 && n >= e) || (inc < 0 && n <= e)) return 0;
  long left = inc > 0 ? (e - n + inc - 1) / inc : (n - e - inc - 1) / -inc;
  long take = tm->ws[k].chunk < 1 ? 1 : tm->ws[k].chunk;
  if (tm->ws[k].guided) { long g = (left + tm->n - 1) / tm->n; if (g > take) take = g; }
  if (take > left) take = left;
  *istart = n; *iend = n + take * inc;
  tm->ws[k].next = *iend;
  sched_stats.ws_chunks++;
  sched_yield_point(YC_CRITICAL);
  return 1;
}
static int ws_start(long start, long end, long incr, long chunk, int guided, long *istart, long *iend) {
  if (!enabled || tasks[cur].team < 0) { seq_ws_active = 1; seq_ws_next = start; seq_ws_end = end; seq_ws_incr = incr ? incr : 1; return ws_next(istart, iend); }
  team_t *tm = &teams[tasks[cur].team];
  unsigned ord = ++tasks[cur].ws_seen;
  int k = (int)(ord % 8);
  sched_yield_point(YC_CRITICAL);
  if (tm->ws[k].ordinal != ord) { tm->ws[k].ordinal = ord; tm->ws[k].next = start; tm->ws[k].end = end; tm->ws[k].incr = incr ? incr : 1; tm->ws[k].chunk = chunk; tm->ws[k].guided = guided; }
  tasks[cur].ws_cur = k;
  return ws_next(istart, iend);
}
#define WS_FAMILY(name, guided)                                                                                                        \
  int GOMP_loop_##name##_start(long s, long e, long i, long c, long *is, long *ie) { return ws_start(s, e, i, c, guided, is, ie); }    \
  int GOMP_loop_##name##_next(long *is, long *ie) { return ws_next(is, ie); }                                                          \
  void GOMP_parallel_loop_##name(void (*fn)(void *), void *data, unsigned nt, long s, long e, long i, long c, unsigned flags);
WS_FAMILY(dynamic, 0)
WS_FAMILY(guided, 1)
WS_FAMILY(nonmonotonic_dynamic, 0)
WS_FAMILY(nonmonotonic_guided, 1)
int GOMP_loop_runtime_start(long s, long e, long i, long *is, long *ie) { return ws_start(s, e, i, 1, 0, is, ie); }
int GOMP_loop_runtime_next(long *is, long *ie) { return ws_next(is, ie); }
int GOMP_loop_maybe_nonmonotonic_runtime_start(long s, long e, long i, long *is, long *ie) { return ws_start(s, e, i, 1, 0, is, ie); }
int GOMP_loop_maybe_nonmonotonic_runtime_next(long *is, long *ie) { return ws_next(is, ie); }
int GOMP_loop_nonmonotonic_runtime_start(long s, long e, long i, long *is, long *ie) { return ws_start(s, e, i, 1, 0, is, ie); }
int GOMP_loop_nonmonotonic_runtime_next(long *is, long *ie) { return ws_next(is, ie); }
void GOMP_loop_end(void) { GOMP_barrier(); }
void GOMP_loop_end_nowait(void) {}
int GOMP_loop_end_cancel(void) { GOMP_barrier(); return 0; }
/* combined parallel + loop: the first work-share of the new team is set up by whoever arrives first, from the arguments kept in the team */
typedef struct { void (*fn)(void *); void *data; long s, e, i, c; int guided; } ploop_t;
static void ploop_body(void *ud) {
  ploop_t *p = (ploop_t *)ud;
  /* pre-register the loop so that the outlined body's GOMP_loop_*_next calls find it */
  if (enabled && tasks[cur].team >= 0) {
    team_t *tm = &teams[tasks[cur].team];
    unsigned ord = ++tasks[cur].ws_seen;
    int k = (int)(ord % 8);
    if (tm->ws[k].ordinal != ord) { tm->ws[k].ordinal = ord; tm->ws[k].next = p->s; tm->ws[k].end = p->e; tm->ws[k].incr = p->i ? p->i : 1; tm->ws[k].chunk = p->c; tm->ws[k].guided = p->guided; }
    tasks[cur].ws_cur = k;
  } else { seq_ws_active = 1; seq_ws_next = p->s; seq_ws_end = p->e; seq_ws_incr = p->i ? p->i : 1; }
  p->fn(p->data);
}
#define PLOOP(name, g)                                                                                                                  \
  void GOMP_parallel_loop_##name(void (*fn)(void *), void *data, unsigned nt, long s, long e, long i, long c, unsigned flags) {       \
    (void)flags; ploop_t p = { fn, data, s, e, i, c, g }; run_region(ploop_body, &p, nt, 0); }
PLOOP(dynamic, 0)
PLOOP(guided, 1)
PLOOP(nonmonotonic_dynamic, 0)
PLOOP(nonmonotonic_guided, 1)
void GOMP_parallel_loop_runtime(void (*fn)(void *), void *data, unsigned nt, long s, long e, long i, unsigned flags) { (void)flags; ploop_t p = { fn, data, s, e, i, 1, 0 }; run_region(ploop_body, &p, nt, 0); }
void GOMP_parallel_loop_maybe_nonmonotonic_runtime(void (*fn)(void *), void *data, unsigned nt, long s, long e, long i, unsigned flags) { (void)flags; ploop_t p = { fn, data, s, e, i, 1, 0 }; run_region(ploop_body, &p, nt, 0); }
void GOMP_parallel_loop_nonmonotonic_runtime(void (*fn)(void *), void *data, unsigned nt, long s, long e, long i, unsigned flags) { (void)flags; ploop_t p = { fn, data, s, e, i, 1, 0 }; run_region(ploop_body, &p, nt, 0); }
/* sections inside an existing parallel region */
unsigned GOMP_sections_start(unsigned count) {
  if (!enabled || tasks[cur].team < 0) { seq_sections = (int)count; seq_next = 1; return GOMP_sections_next(); }
  team_t *tm = &teams[tasks[cur].team];
  unsigned ord = ++tasks[cur].ws_seen;
  sched_yield_point(YC_CRITICAL);
  if (tm->ws[ord % 8].ordinal != ord) { tm->ws[ord % 8].ordinal = ord; tm->sections_count = (int)count; tm->next_section = 1; }
  return GOMP_sections_next();
}
void GOMP_sections_end(void) { GOMP_barrier(); }
/* single: the first thread to arrive at the construct executes it */
int GOMP_single_start(void) {
  if (!enabled || tasks[cur].team < 0) return 1;
  team_t *tm = &teams[tasks[cur].team];
  unsigned ord = ++tasks[cur].single_seen;
  sched_yield_point(YC_CRITICAL);
  if (tm->single_done < ord) { tm->single_done = ord; return 1; }
  return 0;
}
/* explicit tasks are executed at once by the encountering thread (an allowed schedule); taskwait has nothing to wait for */
void GOMP_task(void (*fn)(void *), void *data, void (*cpyfn)(void *, void *), long arg_size, long arg_align, int if_clause, unsigned flags, void **depend, int priority, void *detach) {
  (void)if_clause; (void)flags; (void)depend; (void)priority; (void)detach;
  if (cpyfn) { char *buf = (char *)__builtin_alloca((size_t)arg_size + (size_t)arg_align); char *al = (char *)(((uintptr_t)buf + (uintptr_t)arg_align - 1) & ~((uintptr_t)arg_align - 1)); cpyfn(al, data); fn(al); }
  else fn(data);
}
void GOMP_taskwait(void) {}
void GOMP_taskyield(void) { sched_yield_point(YC_RUNTIME); }
void GOMP_taskgroup_start(void) {}
void GOMP_taskgroup_end(void) {}
void GOMP_ordered_start(void) {}
void GOMP_ordered_end(void) {}
int GOMP_cancel(int which, int do_cancel) { (void)which; (void)do_cancel; return 0; }
int GOMP_cancellation_point(int which) { (void)which; return 0; }
int GOMP_barrier_cancel(void) { GOMP_barrier(); return 0; }
int omp_get_num_threads(void) { return (enabled && tasks[cur].team >= 0) ? teams[tasks[cur].team].n : 1; }
int omp_get_thread_num(void) { return (enabled && tasks[cur].team >= 0) ? tasks[cur].tnum : 0; }
/* omp_set_num_threads: an upper bound on the seeded team size */
int omp_get_max_threads(void) { int n = cfg.team_size ? cfg.team_size : 1; return (omp_nthreads_var > 0 && omp_nthreads_var < n) ? omp_nthreads_var : n; }
void omp_set_num_threads(int n) { omp_nthreads_var = n; }
int omp_get_num_procs(void) { return 16; }
int omp_in_parallel(void) { return enabled && tasks[cur].team >= 0 && teams[tasks[cur].team].n > 1; }
int omp_get_level(void) { return (enabled && tasks[cur].team >= 0) ? tasks[cur].level : 0; }
int omp_get_active_level(void) { return omp_in_parallel() ? tasks[cur].level : 0; }
void omp_set_dynamic(int v) { (void)v; }
int omp_get_dynamic(void) { return cfg.dynamic_team; }
void omp_set_nested(int v) { (void)v; }
int omp_get_nested(void) { return cfg.nested; }
void omp_set_max_active_levels(int v) { (void)v; }
int omp_get_max_active_levels(void) { return cfg.nested ? 2 : 1; }
int omp_get_thread_limit(void) { return 16; }
double omp_get_wtime(void) { return 1e-9 * (double)ev; } /* simulated time: one event = 1 ns */
double omp_get_wtick(void) { return 1e-9; }

static mutex_t *mutex_for(void *key) {
  for (int i = 0; i < NMUTEX; i++) if (mutexes[i].used && mutexes[i].key == key) return &mutexes[i];
  for (int i = 0; i < NMUTEX; i++) if (!mutexes[i].used) { mutexes[i].used = 1; mutexes[i].key = key; mutexes[i].owner = -1; memset(mutexes[i].vc, 0, sizeof mutexes[i].vc); return &mutexes[i]; }
  fatal("out of mutex slots");
  return NULL;
}
void GOMP_critical_name_start(void **pptr) {
  if (!enabled) return;
  sched_stats.criticals++;
  if (cfg.critical_off) { sched_yield_point(YC_CRITICAL); return; }
  mutex_t *m = mutex_for((void *)pptr);
  sched_yield_point(YC_RUNTIME);
  while (m->owner != -1) {
    tasks[cur].state = T_BLOCKED_MUTEX;
    tasks[cur].wait_mutex = (int)(m - mutexes);
    schedule_forced();
  }
  m->owner = cur;
  vc_join(tasks[cur].vc, m->vc); /* acquire */
  sched_yield_point(YC_CRITICAL); /* preemption while holding the lock */
}
void GOMP_critical_name_end(void **pptr) {
  if (!enabled) return;
  if (cfg.critical_off) { sched_yield_point(YC_CRITICAL); return; }
  mutex_t *m = mutex_for((void *)pptr);
  sched_yield_point(YC_CRITICAL);
  memcpy(m->vc, tasks[cur].vc, sizeof m->vc); /* release */
  tasks[cur].vc[cur]++;
  m->owner = -1;
  for (int i = 0; i < SCHED_MAXTASK; i++)
    if (tasks[i].state == T_BLOCKED_MUTEX && tasks[i].wait_mutex == (int)(m - mutexes)) tasks[i].state = T_RUNNABLE;
  sched_yield_point(YC_RUNTIME);
}
void GOMP_critical_start(void) { static void *anon; GOMP_critical_name_start(&anon); }
void GOMP_critical_end(void) { static void *anon; GOMP_critical_name_end(&anon); }
static void *atomic_key;
void GOMP_atomic_start(void) { GOMP_critical_name_start(&atomic_key); }
void GOMP_atomic_end(void) { GOMP_critical_name_end(&atomic_key); }
/* user locks: keyed by the lock's address */
void omp_init_lock(void *l) { (void)l; }
void omp_destroy_lock(void *l) { (void)l; }
void omp_set_lock(void *l) { GOMP_critical_name_start((void **)l); }
void omp_unset_lock(void *l) { GOMP_critical_name_end((void **)l); }
int omp_test_lock(void *l) { if (!enabled) return 1; mutex_t *m = mutex_for(l); if (m->owner != -1) return 0; GOMP_critical_name_start((void **)l); return 1; }

/* ---- pthread primitives of the library objects (`mon` flavour seams): a real mutex would block the one OS thread for good ---- */
static void mutex_drop(void *key) { for (int i = 0; i < NMUTEX; i++) if (mutexes[i].used && mutexes[i].key == key && mutexes[i].owner == -1) mutexes[i].used = 0; }
int m4sim_pthread_mutex_init(void *m, const void *attr) { (void)attr; if (m) memset(m, 0, 40); return 0; }
int m4sim_pthread_mutex_destroy(void *m) { mutex_drop(m); return 0; }
int m4sim_pthread_mutex_lock(void *m) { GOMP_critical_name_start((void **)m); return 0; }
int m4sim_pthread_mutex_unlock(void *m) { GOMP_critical_name_end((void **)m); return 0; }
int m4sim_pthread_mutex_trylock(void *m) { return omp_test_lock(m) ? 0 : 16 /* EBUSY */; }
int m4sim_pthread_spin_init(void *m, int sh) { (void)sh; if (m) *(volatile int *)m = 0; return 0; }
int m4sim_pthread_spin_destroy(void *m) { mutex_drop(m); return 0; }
int m4sim_pthread_spin_lock(void *m) { GOMP_critical_name_start((void **)m); return 0; }
int m4sim_pthread_spin_unlock(void *m) { GOMP_critical_name_end((void **)m); return 0; }
int m4sim_pthread_spin_trylock(void *m) { return omp_test_lock(m) ? 0 : 16; }
int m4sim_pthread_rwlock_init(void *m, const void *attr) { (void)attr; if (m) memset(m, 0, 56); return 0; }
int m4sim_pthread_rwlock_destroy(void *m) { mutex_drop(m); return 0; }
int m4sim_pthread_rwlock_rdlock(void *m) { GOMP_critical_name_start((void **)m); return 0; } /* readers exclude each other too: fewer schedules, never a false conflict */
int m4sim_pthread_rwlock_wrlock(void *m) { GOMP_critical_name_start((void **)m); return 0; }
int m4sim_pthread_rwlock_tryrdlock(void *m) { return omp_test_lock(m) ? 0 : 16; }
int m4sim_pthread_rwlock_trywrlock(void *m) { return omp_test_lock(m) ? 0 : 16; }
int m4sim_pthread_rwlock_unlock(void *m) { GOMP_critical_name_end((void **)m); return 0; }
int m4sim_pthread_once(int *once, void (*fn)(void)) {
  if (!enabled) { if (!*once) { *once = 2; fn(); } return 0; }
  GOMP_critical_name_start((void **)once);
  if (!*once) { *once = 2; fn(); }
  GOMP_critical_name_end((void **)once);
  return 0;
}
unsigned long m4sim_pthread_self(void) { return 0x7000000000UL + 4096UL * (unsigned long)(enabled ? cur : 0); }
int m4sim_pthread_equal(unsigned long a, unsigned long b) { return a == b; }
static unsigned tsd_next = 1;
int m4sim_pthread_key_create(unsigned *key, void (*dtor)(void *)) { (void)dtor; if (tsd_next >= 32) return 11; *key = tsd_next++; return 0; }
int m4sim_pthread_key_delete(unsigned key) { (void)key; return 0; }
void *m4sim_pthread_getspecific(unsigned key) { return key < 32 ? tasks[enabled ? cur : 0].tsd[key] : NULL; }
int m4sim_pthread_setspecific(unsigned key, const void *v) { if (key >= 32) return 22; tasks[enabled ? cur : 0].tsd[key] = (void *)v; return 0; }

/* ================= compiler callbacks (-fsanitize=thread, no runtime) ================= */
#define RA ((uintptr_t)__builtin_return_address(0))
#define ACC(name, n, w) \
  void name(void *a) { if (!enabled) return; mon_access(a, n, w, RA); sched_yield_point(YC_ACCESS); }
ACC(__tsan_read1, 1, 0) ACC(__tsan_read2, 2, 0) ACC(__tsan_read4, 4, 0) ACC(__tsan_read8, 8, 0) ACC(__tsan_read16, 16, 0)
ACC(__tsan_write1, 1, 1) ACC(__tsan_write2, 2, 1) ACC(__tsan_write4, 4, 1) ACC(__tsan_write8, 8, 1) ACC(__tsan_write16, 16, 1)
ACC(__tsan_unaligned_read2, 2, 0) ACC(__tsan_unaligned_read4, 4, 0) ACC(__tsan_unaligned_read8, 8, 0) ACC(__tsan_unaligned_read16, 16, 0)
ACC(__tsan_unaligned_write2, 2, 1) ACC(__tsan_unaligned_write4, 4, 1) ACC(__tsan_unaligned_write8, 8, 1) ACC(__tsan_unaligned_write16, 16, 1)
void __tsan_read_range(void *a, size_t n) { if (!enabled) return; sched_stats.range_accesses++; mon_access(a, n, 0, RA); sched_yield_point(YC_ACCESS); }
void __tsan_write_range(void *a, size_t n) { if (!enabled) return; sched_stats.range_accesses++; mon_access(a, n, 1, RA); sched_yield_point(YC_ACCESS); }
/* atomics (`#pragma omp atomic`, C11 atomics): one task runs at a time, so the plain operation is atomic; for the monitor every
 * atomic operation acquires and releases one global synchronisation object - an over-approximation of the ordering they give
 * (it can hide a race that goes through an atomic, it can never report one that is not there) */
static uint32_t atomic_vc[SCHED_MAXTASK];
static void atomic_sync(void) {
  if (!enabled) return;
  sched_yield_point(YC_CRITICAL);
  vc_join(tasks[cur].vc, atomic_vc);
  memcpy(atomic_vc, tasks[cur].vc, sizeof atomic_vc);
  tasks[cur].vc[cur]++;
}
#define TSAN_ATOMIC(T, B)                                                                                                                       \
  T __tsan_atomic##B##_load(const volatile T *a, int mo) { (void)mo; atomic_sync(); return *a; }                                                \
  void __tsan_atomic##B##_store(volatile T *a, T v, int mo) { (void)mo; atomic_sync(); *a = v; }                                                \
  T __tsan_atomic##B##_exchange(volatile T *a, T v, int mo) { (void)mo; atomic_sync(); T o = *a; *a = v; return o; }                            \
  T __tsan_atomic##B##_fetch_add(volatile T *a, T v, int mo) { (void)mo; atomic_sync(); T o = *a; *a = (T)(o + v); return o; }                  \
  T __tsan_atomic##B##_fetch_sub(volatile T *a, T v, int mo) { (void)mo; atomic_sync(); T o = *a; *a = (T)(o - v); return o; }                  \
  T __tsan_atomic##B##_fetch_and(volatile T *a, T v, int mo) { (void)mo; atomic_sync(); T o = *a; *a = (T)(o & v); return o; }                  \
  T __tsan_atomic##B##_fetch_or(volatile T *a, T v, int mo) { (void)mo; atomic_sync(); T o = *a; *a = (T)(o | v); return o; }                   \
  T __tsan_atomic##B##_fetch_xor(volatile T *a, T v, int mo) { (void)mo; atomic_sync(); T o = *a; *a = (T)(o ^ v); return o; }                  \
  T __tsan_atomic##B##_fetch_nand(volatile T *a, T v, int mo) { (void)mo; atomic_sync(); T o = *a; *a = (T) ~(o & v); return o; }               \
  int __tsan_atomic##B##_compare_exchange_strong(volatile T *a, T *c, T v, int mo, int fmo) { (void)mo; (void)fmo; atomic_sync(); if (*a == *c) { *a = v; return 1; } *c = *a; return 0; } \
  int __tsan_atomic##B##_compare_exchange_weak(volatile T *a, T *c, T v, int mo, int fmo) { (void)mo; (void)fmo; atomic_sync(); if (*a == *c) { *a = v; return 1; } *c = *a; return 0; }   \
  T __tsan_atomic##B##_compare_exchange_val(volatile T *a, T c, T v, int mo, int fmo) { (void)mo; (void)fmo; atomic_sync(); T o = *a; if (o == c) *a = v; return o; }
TSAN_ATOMIC(char, 8)
TSAN_ATOMIC(short, 16)
TSAN_ATOMIC(int, 32)
TSAN_ATOMIC(long, 64)
void __tsan_atomic_thread_fence(int mo) { (void)mo; atomic_sync(); }
void __tsan_atomic_signal_fence(int mo) { (void)mo; }
void __tsan_func_entry(void *pc) { (void)pc; if (!enabled) return; sched_yield_point(YC_FUNC); }
void __tsan_func_exit(void) {}
void __tsan_init(void) {}
void __tsan_vptr_update(void **a, void *b) { (void)a; (void)b; }
void __tsan_vptr_read(void **a) { (void)a; }

/* the library objects' memset/memcpy/memmove (mon flavour only): range access records, then the real thing */
void *m4sim_memset(void *d, int c, size_t n) { if (enabled) { sched_stats.range_accesses++; mon_access(d, n, 1, RA); sched_yield_point(YC_ACCESS); } return memset(d, c, n); }
void *m4sim_memcpy(void *d, const void *s, size_t n) { if (enabled) { sched_stats.range_accesses++; mon_access((void *)s, n, 0, RA); mon_access(d, n, 1, RA); sched_yield_point(YC_ACCESS); } return memcpy(d, s, n); }
void *m4sim_memmove(void *d, const void *s, size_t n) { if (enabled) { sched_stats.range_accesses++; mon_access((void *)s, n, 0, RA); mon_access(d, n, 1, RA); sched_yield_point(YC_ACCESS); } return memmove(d, s, n); }
