/* Seeded generators of probe calls: operand lines + one op line, for every
 * operation of the table.  All values come from the rng passed in. */
#include "gen.h"
#include <stdlib.h>

static const char *MATGENS[] = { "rand", "rand", "rank", "sparse", "zero", "id", "one" };

static int g_deep, g_strat = -1, g_sliver, g_sliver_n, g_sliver_wide;
int gen_dim(rng_t *r, int maxd) {
  if (maxd < 1) maxd = 1;
  if (g_sliver) { /* tiny, huge, tiny, ... : (tiny x huge), (huge x tiny) products, flat eliminations, thin triangular solves */
    int pos = g_sliver_n++;
    int huge = g_sliver == 3 ? pos == 2 : (pos & 1) == (g_sliver - 1);
    if (huge) return (g_sliver_wide || rng_chance(r, 1, 4)) ? 65400 + (int)rng_below(r, 4600) : 20000 + (int)rng_below(r, 6000); /* beyond 2 * L2/64 words of the smallest L2: always in the small-cache class, now and then otherwise */
    return rng_chance(r, 2, 3) ? 16 + (int)rng_below(r, 6) : 1 + (int)rng_below(r, 4); /* 16 and more rows: the M4RM code proper instead of its fallback to the naive product */
  }
  if (g_deep && maxd >= 200 && rng_below(r, 4) != 0) return 257 + (int)rng_below(r, 330); /* beyond the 256 of the smallest __M4RI_MUL_BLOCKSIZE */
  int d;
  switch (rng_below(r, 10)) {
  case 0: case 1: d = 1 + (int)rng_below(r, 12); break;
  case 2: case 3: case 4: { /* around a multiple of 64 */
    int k = 1 + (int)rng_below(r, (uint64_t)(maxd / 64 + 1));
    int off[] = { -1, 0, 1, 0, -63, 63, 2 };
    d = 64 * k + off[rng_below(r, 7)];
    break;
  }
  case 5: d = 1 + (int)rng_below(r, 130); break;
  default: d = 1 + (int)rng_below(r, (uint64_t)maxd); break;
  }
  if (d < 1) d = 1;
  if (d > maxd) d = maxd;
  return d;
}

static int g_winprob; /* set by gen_case from its options */
/* number of columns with a chosen number of words per row: the unrolled kernels (`_mzd_add` has one case per width 1..8 and a
 * generic one) and the SSE2 paths (more than 2 or 4 words) each need their width */
static int width_cols(rng_t *r, int cls) {
  int w = cls >= 0 ? 1 + cls % 10 : 1 + (int)rng_below(r, 10);
  if (rng_chance(r, 1, 6)) w += 8; /* more than 8 words past the start: full rounds of the unrolled loops */
  int off[] = { 1, 64, 63, 2, 17, 33 };
  return 64 * (w - 1) + (rng_chance(r, 1, 2) ? off[rng_below(r, 6)] : 1 + (int)rng_below(r, 64));
}
static void emit_mat(rng_t *r, sbuf_t *o, int reg, int m, int n, const char *force_gen, long force_p) {
  const char *g = force_gen ? force_gen : MATGENS[rng_below(r, sizeof MATGENS / sizeof MATGENS[0])];
  long p = force_p;
  if (!force_gen) {
    if (!strcmp(g, "rand")) { long ds[] = { 128, 128, 128, 16, 240, 4 }; p = ds[rng_below(r, 6)]; }
    else if (!strcmp(g, "rank")) { int mn = m < n ? m : n; p = 1 + (long)rng_below(r, (uint64_t)mn); if (rng_below(r, 3) == 0) p = 1 + (long)rng_below(r, 8); }
    else if (!strcmp(g, "sparse")) p = 1 + (long)rng_below(r, (uint64_t)(m + n));
    else p = 0;
  }
  unsigned long long sd = (unsigned long long)(rng_u64(r) >> 1);
  if (g_winprob && (int)rng_below(r, 16) < g_winprob) { /* same value, but living in a window: odd word offsets give 8-mod-16 aligned rows */
    int r0s[] = { 0, 1, 3, 0 }, c0s[] = { 1, 1, 0, 2, 3, 1 }, ers[] = { 0, 2, 0 }, ecs[] = { 0, 5, 64, 70, 0 }; /* word offsets: odd in 4 of 6 (rows 8-mod-16 aligned) */
    sb_printf(o, "wmat %d %d %d %s %ld %llu %d %d %d %d\n", reg, m, n, g, p, sd, r0s[rng_below(r, 4)], c0s[rng_below(r, 6)], ers[rng_below(r, 3)], ecs[rng_below(r, 5)]);
    return;
  }
  sb_printf(o, "mat %d %d %d %s %ld %llu\n", reg, m, n, g, p, sd);
}
static void emit_perm(rng_t *r, sbuf_t *o, int reg, int len, const char *g) {
  sb_printf(o, "perm %d %d %s %llu\n", reg, len, g, (unsigned long long)(rng_u64(r) >> 1));
}
static long pick_cutoff(rng_t *r, int m, int k, int n) {
  long cs[] = { 0, 0, 64, 128, 192, 256, 512, 1024, 100, 2048 };
  for (int t = 0; t < 8; t++) {
    long c = cs[rng_below(r, 10)];
    if (strassen_guard_ok(m, k, n, c)) return c;
  }
  return 0;
}

/* PLE-based routines only update the block right of the first 512 columns (A11) when the matrix is wider than that, and only consult the
 * not-full-rank lookup tables when a column stripe has fewer pivots than columns: wide, rank deficient shapes with zero / dependent leading columns. */
static int wide_ple_shape(rng_t *r, sbuf_t *o, int reg, int *m_out, int *n_out) {
  int m = 20 + (int)rng_below(r, 230), n = 513 + (int)rng_below(r, 600);
  int lead = (int)rng_below(r, 40);      /* leading zero columns */
  unsigned long long s = (unsigned long long)(rng_u64(r) >> 1);
  sb_printf(o, "mat %d %d %d widegap %d %llu\n", reg, m, n, lead * 1000 + 1 + (int)rng_below(r, (uint64_t)(m < 200 ? m : 200)), s);
  *m_out = m; *n_out = n;
  return 0;
}

const char *const gen_all_ops[] = {
  "mul_naive", "addmul_naive", "mul_va", "mul_naive_t", "mul_m4rm", "addmul_m4rm", "mul", "addmul", "sqr", "addsqr", "djb",
  "ech_naive", "ech_m4ri", "ech_pluq", "ech", "top_ech",
  "ple", "pluq", "ple_naive", "pluq_naive", "ple_russian", "pluq_russian",
  "trsm_ul", "trsm_ll", "trsm_ur", "trsm_lr", "trtri", "inv_m4ri", "invert_naive",
  "solve", "pluq_solve", "kernel",
  "add", "transpose", "copy", "submatrix", "concat", "stack", "extract_u", "extract_l", "set_ui", "cmp",
  "ap_left", "ap_left_trans", "ap_right", "ap_right_trans", "ap_right_trans_tri", "ap_capped",
  "mzp_copy", "mzp_window", "col_swap", "row_swap", "row_add", "from_str", "window_cycle", "window_burst",
  "row_add_full", "copy_row", "col_swap_rows", "gauss", "density", "find_pivot", "randomize_custom", "row_clear_offset",
  "bits", "combine", "m4rm_step", "trtri_russian", "hash", "fprint", "info", "mzp_set_ui",
  NULL
};
int gen_nops(void) { int n = 0; while (gen_all_ops[n]) n++; return n; }

/* Emits operand lines and the op line.  Uses matrix registers rb.. and perm registers pb..  Returns number of
 * matrix registers consumed (>=0), or -1 for an unknown op. */
static int gen_case_inner(rng_t *r, const char *op, const genopt_t *g, sbuf_t *o, int rb, int pb);
int gen_case(rng_t *r, const char *op, const genopt_t *g, sbuf_t *o, int rb, int pb) {
  g_deep = g->deep; g_strat = g->strat1 - 1; g_winprob = g->winprob;
  /* flat shapes only where the cost stays small: no kernel (n x n result), no inversion / triangular inverse (square), no DJB, no string constructor */
  static const char *flat_ok[] = { "mul_naive", "addmul_naive", "mul_va", "mul_m4rm", "addmul_m4rm", "mul", "addmul", "ech_m4ri", "ech_pluq", "ech", "top_ech", "ple", "pluq", "ple_russian",
    "pluq_russian", "trsm_ul", "trsm_ll", "trsm_ur", "trsm_lr", "solve", "pluq_solve", "transpose", "copy", "submatrix", "concat", "stack", "extract_u", "extract_l", "set_ui", "cmp", "ap_left",
    "ap_left_trans", "ap_right", "ap_right_trans", "ap_capped", "col_swap", "row_swap", "gauss", "density", "find_pivot", "hash", "info", "m4rm_step", "window_cycle", NULL };
  g_sliver = 0; g_sliver_n = 0;
  if (g->sliver) for (int i = 0; flat_ok[i]; i++) if (!strcmp(op, flat_ok[i])) g_sliver = g->sliver;
  if (g_sliver == 1 && (strstr(op, "mul") || !strncmp(op, "trsm", 4) || strstr(op, "solve") || !strcmp(op, "concat") || !strcmp(op, "stack") || !strcmp(op, "submatrix")))
    g_sliver = 2; /* operations with three dimensions (or a square operand first): tiny first, so that no huge x huge object arises */
  g_sliver_wide = g->sliver == 2; /* the engine runs this class with the smallest caches */
  if (g_sliver && strstr(op, "mul") && rng_chance(r, 3, 4)) g_sliver = 3; /* products: (tiny x tiny) times (tiny x huge) - a very wide right factor */
  genopt_t gg = *g;
  if (g_sliver) { gg.deep = 0; g_deep = 0; gg.maxdim = 70000; }
  int rc = gen_case_inner(r, op, &gg, o, rb, pb);
  g_deep = 0; g_strat = -1; g_sliver = 0;
  return rc;
}
static int gen_case_inner(rng_t *r, const char *op, const genopt_t *g, sbuf_t *o, int rb, int pb) {
  int D = g->maxdim;
  int wide_ok = D >= 200; /* width classes need up to 640 columns */
  int supplied = rng_chance(r, 1, 2); /* destination supplied (with junk) or allocated by the call */
#define IS(x) (!strcmp(op, x))
  if (IS("mul_naive") || IS("addmul_naive") || IS("mul_va") || IS("mul_m4rm") || IS("addmul_m4rm") || IS("mul") ||
      IS("addmul") || IS("mul_mp") || IS("addmul_mp") || IS("djb")) {
    int m = gen_dim(r, D), l = gen_dim(r, D), n = gen_dim(r, D);
    if (IS("djb")) { if (m > 300) m = 1 + m % 300; if (l > 300) l = 1 + l % 300; if (rng_chance(r, 1, 2)) { if (m < 24) m += 24; if (l < 24) l += 24; } } /* large enough for the compiled program to outgrow its initial 64 entries */
    if (IS("mul_naive") || IS("addmul_naive") || IS("mul_va")) { if (m > 400) m = 1 + m % 400; }
    emit_mat(r, o, rb + 1, m, l, NULL, 0);
    if (IS("djb") && g_winprob && rng_chance(r, 1, 2)) { /* the map is applied row by row with the two-operand XOR kernel: V as a view (its rows may be 8-mod-16 aligned) wide enough for the vector loop */
      int save = g_winprob;
      if (n < 129) n += 129;
      g_winprob = 16;
      emit_mat(r, o, rb + 2, l, n, NULL, 0);
      g_winprob = save;
    } else
    emit_mat(r, o, rb + 2, l, n, NULL, 0);
    int need_c = IS("addmul_naive") || IS("mul_va") || IS("addmul_m4rm") || IS("addmul") || IS("addmul_mp");
    if (IS("djb")) supplied = 0;
    else if (need_c && !(IS("addmul_m4rm") || IS("addmul") || IS("addmul_mp"))) supplied = 1;
    else if (need_c) supplied = rng_chance(r, 3, 4);
    if (supplied) emit_mat(r, o, rb, m, n, (need_c && !IS("mul_va")) ? "rand" : "junk", 128); /* _mzd_mul_va is called with clear = 1: C is pure output */
    if (IS("djb")) { /* mode bit 0: compile the operand itself (it may be a view) instead of a copy; bit 1: the output matrix is supplied and holds other data */
      int mode = (int)rng_below(r, 4);
      if (mode & 2) emit_mat(r, o, rb, m, n, "junk", 128);
      sb_printf(o, "op djb %d %d %d %d\n", rb, rb + 1, rb + 2, mode);
      return 3;
    }
    if (IS("mul_m4rm") || IS("addmul_m4rm")) sb_printf(o, "op %s %d %d %d %d\n", op, rb, rb + 1, rb + 2, (g_sliver && rng_chance(r, 2, 3)) ? 0 : (int)rng_below(r, 13)); /* flat operands: mostly the automatic k, which is what looks at the caches */
    else if (IS("mul") || IS("addmul") || IS("mul_mp") || IS("addmul_mp")) sb_printf(o, "op %s %d %d %d %ld\n", op, rb, rb + 1, rb + 2, pick_cutoff(r, m, l, n));
    else sb_printf(o, "op %s %d %d %d\n", op, rb, rb + 1, rb + 2);
    return 3;
  }
  if (IS("mul_naive_t")) {
    int m = gen_dim(r, D > 300 ? 300 : D), l = gen_dim(r, D), n = gen_dim(r, D > 300 ? 300 : D);
    int clear = (int)rng_below(r, 2);
    emit_mat(r, o, rb + 1, m, l, NULL, 0);
    emit_mat(r, o, rb + 2, n, l, NULL, 0);
    emit_mat(r, o, rb, m, n, clear ? "junk" : "rand", 128);
    sb_printf(o, "op mul_naive_t %d %d %d %d\n", rb, rb + 1, rb + 2, clear);
    return 3;
  }
  if (IS("sqr") || IS("addsqr")) {
    int n = gen_dim(r, D);
    emit_mat(r, o, rb + 1, n, n, NULL, 0);
    if (IS("addsqr")) { if (rng_chance(r, 3, 4)) emit_mat(r, o, rb, n, n, "rand", 128); }
    else if (supplied) emit_mat(r, o, rb, n, n, "junk", 128);
    sb_printf(o, "op %s %d %d %ld\n", op, rb, rb + 1, pick_cutoff(r, n, n, n));
    return 2;
  }
  if (IS("ech_naive") || IS("ech_m4ri") || IS("ech_pluq") || IS("ech") || IS("top_ech")) {
    int m = gen_dim(r, D), n = gen_dim(r, D);
    if (IS("ech_naive") && m > 500) m = 1 + m % 500;
    int hybrid = 0;
    int deep_lz = 0;
    if ((IS("ech_pluq") || IS("ech")) && g_deep && rng_chance(r, 1, 2)) { n = 577 + (int)rng_below(r, 64); m = 8192 / ((n + 63) / 64) + 1 + (int)rng_below(r, 100); deep_lz = rng_chance(r, 1, 2); }
    if (IS("ech") && D >= 200 && rng_chance(r, 1, 2)) { /* density-switching hybrid: first pivot beyond column 256, remaining block denser than the switching threshold (0.15), whole matrix sparser */
      hybrid = 1;
      m = 40 + (int)rng_below(r, 260); n = 640 + (int)rng_below(r, 400);
      int dens = 45 + (int)rng_below(r, 46);                       /* 0.176 .. 0.35 */
      int minlead = (int)((double)n * (1.0 - 0.13 * 256.0 / (double)dens)) + 1;
      if (minlead < 257) minlead = 257;
      int maxlead = n * 8 / 10;
      if (maxlead <= minlead) maxlead = minlead + 1;
      int lead = minlead + (int)rng_below(r, (uint64_t)(maxlead - minlead));
      sb_printf(o, "mat %d %d %d leadz %d %llu\n", rb, m, n, lead * 1000 + dens, (unsigned long long)(rng_u64(r) >> 1));
    } else
    if (deep_lz) sb_printf(o, "mat %d %d %d leadz %d %llu\n", rb, m, n, (1 + (int)rng_below(r, (uint64_t)(n / 2))) * 1000 + 128, (unsigned long long)(rng_u64(r) >> 1));
    else
    if (!IS("ech_naive") && D >= 200 && rng_chance(r, 1, 4)) wide_ple_shape(r, o, rb, &m, &n);
    else emit_mat(r, o, rb, m, n, rng_chance(r, 1, 2) ? "rank" : NULL, 1 + (long)rng_below(r, (uint64_t)(m < n ? m : n)));
    if (IS("ech_m4ri")) sb_printf(o, "op %s %d %d %d\n", op, rb, (int)rng_below(r, 2), (int)rng_below(r, 11)); /* k up to 10: six tables of k bits fit a word */
    else if (IS("top_ech")) sb_printf(o, "op %s %d %d\n", op, rb, (int)rng_below(r, 11));
    else sb_printf(o, "op %s %d %d\n", op, rb, hybrid ? (int)(rng_below(r, 4) != 0) : (int)rng_below(r, 2));
    return 1;
  }
  if (IS("ple") || IS("pluq") || IS("ple_naive") || IS("pluq_naive") || IS("ple_russian") || IS("pluq_russian")) {
    int m = gen_dim(r, D), n = gen_dim(r, D);
    if ((IS("ple_naive") || IS("pluq_naive")) && m > 400) m = 1 + m % 400;
    if (!IS("ple_naive") && !IS("pluq_naive") && g_deep && rng_chance(r, 4, 5)) { /* more than L3/8 = 8192 words: the recursive _mzd_ple/_mzd_pluq with its column splits, A10/A11 updates and compression of L */
      n = 513 + (int)rng_below(r, 260);
      int lz = rng_chance(r, 3, 5);
      if (lz || rng_chance(r, 1, 2)) n = rng_chance(r, 1, 2) ? 577 + (int)rng_below(r, 64) : 705 + (int)rng_below(r, 64); /* an even number of words per row: no stride padding behind the last row */
      m = 8192 / ((n + 63) / 64) + 1 + (int)rng_below(r, 200);
      if (lz) /* some leading zero columns and full rank behind them: the left half of a column split has a rank that is no multiple of 64, the right half is full, rows are left over */
        sb_printf(o, "mat %d %d %d leadz %d %llu\n", rb, m, n, (1 + (int)rng_below(r, (uint64_t)(n / 2))) * 1000 + 128, (unsigned long long)(rng_u64(r) >> 1));
      else emit_mat(r, o, rb, m, n, rng_chance(r, 1, 2) ? "rank" : NULL, 1 + (long)rng_below(r, (uint64_t)(m < n ? m : n)));
    } else
    if (!IS("ple_naive") && !IS("pluq_naive") && D >= 200 && rng_chance(r, 1, 3)) wide_ple_shape(r, o, rb, &m, &n);
    else emit_mat(r, o, rb, m, n, rng_chance(r, 1, 2) ? "rank" : NULL, 1 + (long)rng_below(r, (uint64_t)(m < n ? m : n)));
    emit_perm(r, o, pb, m, rng_chance(r, 1, 2) ? "junk" : "id");
    emit_perm(r, o, pb + 1, n, rng_chance(r, 1, 2) ? "junk" : "id");
    long par = 0;
    if (IS("ple") || IS("pluq")) { long cs[] = { 0, 0, 64, 128, 256, 1024 }; par = cs[rng_below(r, 6)]; }
    if (IS("ple_russian") || IS("pluq_russian")) par = (long)rng_below(r, 10); /* k up to 9: seven tables of k bits fit a word */
    sb_printf(o, "op %s %d %d %d %ld\n", op, rb, pb, pb + 1, par);
    return 1;
  }
  if (IS("trsm_ul") || IS("trsm_ll") || IS("trsm_ur") || IS("trsm_lr")) {
    int n = gen_dim(r, D), w = gen_dim(r, D);
    int upper = op[5] == 'u', left = op[6] == 'l';
    emit_mat(r, o, rb, n, n, upper ? "uut" : "ult", (long)rng_below(r, 2));
    if (left) emit_mat(r, o, rb + 1, n, w, NULL, 0); else emit_mat(r, o, rb + 1, w, n, NULL, 0);
    long cs[] = { 0, 0, 64, 128, 256, 1024 };
    sb_printf(o, "op %s %d %d %ld\n", op, rb, rb + 1, cs[rng_below(r, 6)]);
    return 2;
  }
  if (IS("trtri")) {
    int n = gen_dim(r, D);
    emit_mat(r, o, rb, n, n, "uut", 0);
    sb_printf(o, "op trtri %d\n", rb);
    return 1;
  }
  if (IS("inv_m4ri") || IS("invert_naive")) {
    int n = gen_dim(r, D);
    if (IS("invert_naive") && n > 400) n = 1 + n % 400;
    emit_mat(r, o, rb + 1, n, n, "inv", 0);
    if (supplied) emit_mat(r, o, rb, n, n, "junk", 128);
    if (IS("inv_m4ri")) sb_printf(o, "op inv_m4ri %d %d %d\n", rb, rb + 1, (int)rng_below(r, 9));
    else sb_printf(o, "op invert_naive %d %d\n", rb, rb + 1);
    return 2;
  }
  if (IS("solve") || IS("pluq_solve")) {
    int m = gen_dim(r, D), n = gen_dim(r, D), w = gen_dim(r, D);
    if (g_deep && rng_chance(r, 1, 2)) { n = 513 + (int)rng_below(r, 200); m = 8192 / ((n + 63) / 64) + 1 + (int)rng_below(r, 100); w = 1 + (int)rng_below(r, 200); }
    emit_mat(r, o, rb, m, n, rng_chance(r, 1, 2) ? "rank" : NULL, 1 + (long)rng_below(r, (uint64_t)(m < n ? m : n)));
    emit_mat(r, o, rb + 1, m > n ? m : n, w, rng_chance(r, 1, 3) ? "zero" : NULL, 0);
    long cs[] = { 0, 0, 64, 128, 256 };
    sb_printf(o, "op %s %d %d %ld\n", op, rb, rb + 1, cs[rng_below(r, 5)]);
    return 2;
  }
  if (IS("kernel")) {
    int m = gen_dim(r, D), n = gen_dim(r, D);
    if (g_deep && rng_chance(r, 1, 2)) { n = 513 + (int)rng_below(r, 200); m = 8192 / ((n + 63) / 64) + 1 + (int)rng_below(r, 100); emit_mat(r, o, rb + 1, m, n, "rank", 1 + (long)rng_below(r, (uint64_t)n)); }
    else if (D >= 200 && rng_chance(r, 1, 4)) wide_ple_shape(r, o, rb + 1, &m, &n);
    else emit_mat(r, o, rb + 1, m, n, rng_chance(r, 1, 2) ? "rank" : NULL, 1 + (long)rng_below(r, (uint64_t)(m < n ? m : n)));
    long cs[] = { 0, 0, 64, 128, 256 };
    sb_printf(o, "op kernel %d %d %ld\n", rb, rb + 1, cs[rng_below(r, 5)]);
    return 2;
  }
  if (IS("add")) {
    int m = gen_dim(r, D > 300 ? 300 : D), n = gen_dim(r, D);
    int mode = (int)rng_below(r, 4); /* 0: allocate, 1: supplied, 2: C==A, 3: C==B */
    if (wide_ok) { n = width_cols(r, g_strat >= 0 ? g_strat % 40 : -1); if (g_strat >= 0) mode = (g_strat % 40) / 10; } /* every (width class, aliasing mode) pair within 40 cases */
    emit_mat(r, o, rb + 1, m, n, NULL, 0);
    emit_mat(r, o, rb + 2, m, n, NULL, 0);
    if (mode == 1) emit_mat(r, o, rb, m, n, "junk", 128);
    sb_printf(o, "op add %d %d %d\n", mode == 2 ? rb + 1 : mode == 3 ? rb + 2 : rb, rb + 1, rb + 2);
    return 3;
  }
  if (IS("transpose") || IS("copy")) {
    int m = gen_dim(r, D), n = gen_dim(r, D);
    if (IS("copy") && wide_ok && rng_chance(r, 1, 2)) n = width_cols(r, g_strat);
    if (IS("transpose") && D >= 400 && rng_chance(r, 1, 4)) { /* beyond one 512-block and beyond 768: the recursive splits of _mzd_transpose_notsmall */
      int big[] = { 513, 577, 640, 769, 800, 900, 1025, 1100 };
      if (rng_chance(r, 1, 2)) m = big[rng_below(r, 8)] + (int)rng_below(r, 30); else n = big[rng_below(r, 8)] + (int)rng_below(r, 30);
    }
    emit_mat(r, o, rb + 1, m, n, NULL, 0);
    if (supplied) { if (IS("copy")) emit_mat(r, o, rb, m, n, "junk", 128); else emit_mat(r, o, rb, n, m, "junk", 128); }
    sb_printf(o, "op %s %d %d\n", op, rb, rb + 1);
    return 2;
  }
  if (IS("submatrix")) {
    int m = gen_dim(r, D), n = gen_dim(r, D);
    int r0 = (int)rng_below(r, (uint64_t)m), c0 = (int)rng_below(r, (uint64_t)n);
    int r1 = r0 + 1 + (int)rng_below(r, (uint64_t)(m - r0)), c1 = c0 + 1 + (int)rng_below(r, (uint64_t)(n - c0));
    emit_mat(r, o, rb + 1, m, n, NULL, 0);
    if (supplied) emit_mat(r, o, rb, r1 - r0, c1 - c0, "junk", 128);
    sb_printf(o, "op submatrix %d %d %d %d %d %d\n", rb, rb + 1, r0, c0, r1, c1);
    return 2;
  }
  if (IS("concat") || IS("stack")) {
    int m = gen_dim(r, D), n = gen_dim(r, D), x = gen_dim(r, D);
    if (rng_chance(r, 1, 2)) x = 1 + (int)rng_below(r, 20); /* a narrow / short second part leaves the first part's last word (row) next to the result's edge */
    if (IS("concat")) { emit_mat(r, o, rb + 1, m, n, NULL, 0); emit_mat(r, o, rb + 2, m, x, NULL, 0); if (supplied) emit_mat(r, o, rb, m, n + x, "junk", 128); }
    else { emit_mat(r, o, rb + 1, m, n, NULL, 0); emit_mat(r, o, rb + 2, x, n, NULL, 0); if (supplied) emit_mat(r, o, rb, m + x, n, "junk", 128); }
    sb_printf(o, "op %s %d %d %d\n", op, rb, rb + 1, rb + 2);
    return 3;
  }
  if (IS("extract_u") || IS("extract_l")) {
    int m = gen_dim(r, D), n = gen_dim(r, D);
    emit_mat(r, o, rb + 1, m, n, NULL, 0);
    int k = m < n ? m : n;
    if (supplied) emit_mat(r, o, rb, k, k, "junk", 128);
    sb_printf(o, "op %s %d %d\n", op, rb, rb + 1);
    return 2;
  }
  if (IS("set_ui")) {
    int m = gen_dim(r, D), n = gen_dim(r, D);
    emit_mat(r, o, rb, m, n, "rand", 128);
    sb_printf(o, "op set_ui %d %d\n", rb, (int)rng_below(r, 2));
    return 1;
  }
  if (IS("cmp") && rng_chance(r, 1, 2)) { /* observers on operands with all-zero rows at the bottom, narrow ones included, owned or views */
    int m = 2 + gen_dim(r, D > 200 ? 200 : D), n = rng_chance(r, 1, 2) ? 1 + (int)rng_below(r, 64) : gen_dim(r, D);
    emit_mat(r, o, rb, m, n, "sparse", 1 + (long)rng_below(r, 5));
    emit_mat(r, o, rb + 1, m, n, "zero", 0);
    sb_printf(o, "op cmp %d %d\n", rb, rb + 1);
    return 2;
  }
  if (IS("cmp")) {
    int m = gen_dim(r, D), n = gen_dim(r, D);
    unsigned long long s = (unsigned long long)(rng_u64(r) >> 1);
    sb_printf(o, "mat %d %d %d rand 128 %llu\n", rb, m, n, s);
    if (rng_chance(r, 1, 2)) sb_printf(o, "mat %d %d %d rand 128 %llu\n", rb + 1, m, n, s);
    else emit_mat(r, o, rb + 1, rng_chance(r, 1, 2) ? m : gen_dim(r, D), n, NULL, 0);
    sb_printf(o, "op cmp %d %d\n", rb, rb + 1);
    return 2;
  }
  if (IS("ap_capped")) {
    int m = gen_dim(r, D), n = gen_dim(r, D);
    int len = rng_chance(r, 1, 3) ? 1 + (int)rng_below(r, (uint64_t)n) : n;
    emit_mat(r, o, rb, m, n, NULL, 0);
    emit_perm(r, o, pb, len, rng_chance(r, 1, 6) ? "id" : "rand");
    sb_printf(o, "op ap_capped %d %d %d %d %d\n", rb, pb, rng_chance(r, 1, 2) ? 0 : (int)rng_below(r, (uint64_t)m + 1), rng_chance(r, 1, 2) ? 0 : (int)rng_below(r, (uint64_t)len + 1), (int)rng_below(r, 2));
    return 1;
  }
  if (!strncmp(op, "ap_", 3)) {
    int m = gen_dim(r, D), n = gen_dim(r, D);
    int left = !strncmp(op, "ap_left", 7);
    int len = left ? m : n;
    if (!IS("ap_right_trans_tri") && rng_chance(r, 1, 4)) len = 1 + (int)rng_below(r, (uint64_t)len); /* permutation shorter than the dimension */
    emit_mat(r, o, rb, m, n, NULL, 0);
    emit_perm(r, o, pb, len, rng_chance(r, 1, 6) ? "id" : "rand");
    sb_printf(o, "op %s %d %d\n", op, rb, pb);
    return 1;
  }
  if (IS("mzp_copy")) {
    int len = gen_dim(r, D);
    emit_perm(r, o, pb + 1, len, "rand");
    if (supplied) { int extra = (int)rng_below(r, 5); emit_perm(r, o, pb, len + extra, extra ? "rand" : "junk"); } /* a longer target keeps its tail: only an equally long one is pure output */
    sb_printf(o, "op mzp_copy %d %d\n", pb, pb + 1);
    return 0;
  }
  if (IS("mzp_window")) {
    int len = gen_dim(r, D);
    int b = (int)rng_below(r, (uint64_t)len), e = b + (int)rng_below(r, (uint64_t)(len - b + 1));
    emit_perm(r, o, pb, len, "rand");
    sb_printf(o, "op mzp_window %d %d %d\n", pb, b, e);
    return 0;
  }
  if (IS("col_swap") || IS("row_swap")) {
    int m = gen_dim(r, D), n = gen_dim(r, D);
    emit_mat(r, o, rb, m, n, NULL, 0);
    int lim = IS("col_swap") ? n : m;
    sb_printf(o, "op %s %d %d %d\n", op, rb, (int)rng_below(r, (uint64_t)lim), (int)rng_below(r, (uint64_t)lim));
    return 1;
  }
  if (IS("row_add")) {
    int m = 2 + gen_dim(r, D > 100 ? 100 : D), n = wide_ok && rng_chance(r, 1, 2) ? width_cols(r, g_strat) : gen_dim(r, D);
    emit_mat(r, o, rb, m, n, NULL, 0);
    int a = (int)rng_below(r, (uint64_t)m), b = (a + 1 + (int)rng_below(r, (uint64_t)(m - 1))) % m;
    sb_printf(o, "op row_add %d %d %d %d\n", rb, a, b, (int)rng_below(r, (uint64_t)n));
    return 1;
  }
  if (IS("row_add_full")) {
    int m = 2 + gen_dim(r, D > 100 ? 100 : D), n = wide_ok ? width_cols(r, g_strat) : gen_dim(r, D);
    emit_mat(r, o, rb, m, n, NULL, 0);
    int a = (int)rng_below(r, (uint64_t)m), b = (a + 1 + (int)rng_below(r, (uint64_t)(m - 1))) % m;
    sb_printf(o, "op row_add_full %d %d %d\n", rb, a, b);
    return 1;
  }
  if (IS("copy_row")) {
    int m = gen_dim(r, D > 100 ? 100 : D), n = wide_ok ? width_cols(r, g_strat) : gen_dim(r, D), m2 = gen_dim(r, D > 100 ? 100 : D);
    int extra = rng_chance(r, 1, 2) ? 0 : (int)rng_below(r, 130);
    emit_mat(r, o, rb + 1, m, n, NULL, 0);
    emit_mat(r, o, rb, m2, n + extra, "rand", 128);
    sb_printf(o, "op copy_row %d %d %d %d\n", rb, (int)rng_below(r, (uint64_t)m2), rb + 1, (int)rng_below(r, (uint64_t)m));
    return 2;
  }
  if (IS("col_swap_rows")) {
    int m = gen_dim(r, D), n = gen_dim(r, D);
    emit_mat(r, o, rb, m, n, NULL, 0);
    int r0 = (int)rng_below(r, (uint64_t)m), r1 = r0 + 1 + (int)rng_below(r, (uint64_t)(m - r0));
    int ca = (int)rng_below(r, (uint64_t)n), cb = rng_chance(r, 1, 3) ? n - 1 : (int)rng_below(r, (uint64_t)n);
    sb_printf(o, "op col_swap_rows %d %d %d %d %d\n", rb, ca, cb, r0, r1);
    return 1;
  }
  if (IS("gauss")) {
    int m = gen_dim(r, D > 300 ? 300 : D), n = gen_dim(r, D);
    emit_mat(r, o, rb, m, n, rng_chance(r, 1, 2) ? "rank" : NULL, 1 + (long)rng_below(r, (uint64_t)(m < n ? m : n)));
    int mn = m < n ? m : n;
    sb_printf(o, "op gauss %d %d %d\n", rb, rng_chance(r, 2, 3) ? 0 : (int)rng_below(r, (uint64_t)mn + 1), (int)rng_below(r, 2));
    return 1;
  }
  if (IS("density")) {
    int m = gen_dim(r, D), n = gen_dim(r, D);
    emit_mat(r, o, rb, m, n, NULL, 0);
    int sub = (int)rng_below(r, 2);
    long ress[] = { 0, 1, 1, 2, 3, 32, 100 };
    sb_printf(o, "op density %d %ld %d %d %d\n", rb, ress[rng_below(r, 7)], sub ? (int)rng_below(r, (uint64_t)m) : 0, sub ? (int)rng_below(r, (uint64_t)n) : 0, sub);
    return 1;
  }
  if (IS("find_pivot")) {
    int m = gen_dim(r, D > 200 ? 200 : D), n = gen_dim(r, D);
    if (wide_ok && rng_chance(r, 1, 2)) { n = 64 * (1 + (int)rng_below(r, 8)); if (rng_chance(r, 1, 3)) n -= (int)rng_below(r, 64); } /* the branches differ by whether fewer than 64 columns are left and where the last word ends */
    if (rng_chance(r, 1, 2)) emit_mat(r, o, rb, m, n, "sparse", 1 + (long)rng_below(r, 6)); else emit_mat(r, o, rb, m, n, NULL, 0);
    int sc = (int)rng_below(r, (uint64_t)n);
    if (rng_chance(r, 1, 2)) { int lw = n > 64 ? n - 1 - (int)rng_below(r, 63) : (int)rng_below(r, (uint64_t)n); sc = lw < 0 ? 0 : lw; } /* start inside the last word */
    sb_printf(o, "op find_pivot %d %d %d\n", rb, rng_chance(r, 1, 3) ? 0 : (int)rng_below(r, (uint64_t)m), sc);
    return 1;
  }
  if (IS("randomize_custom")) {
    int m = gen_dim(r, D > 100 ? 100 : D), n = wide_ok ? width_cols(r, g_strat) : gen_dim(r, D);
    emit_mat(r, o, rb, m, n, "junk", 128);
    sb_printf(o, "op randomize_custom %d %llu\n", rb, (unsigned long long)(rng_u64(r) >> 2));
    return 1;
  }
  if (IS("row_clear_offset")) {
    int m = gen_dim(r, D), n = gen_dim(r, D);
    sb_printf(o, "mat %d %d %d rand 128 %llu\n", rb, m, n, (unsigned long long)(rng_u64(r) >> 1));
    sb_printf(o, "op row_clear_offset %d %d %d\n", rb, (int)rng_below(r, (uint64_t)m), rng_chance(r, 1, 4) ? n - 1 : (int)rng_below(r, (uint64_t)n));
    return 1;
  }
  if (IS("bits")) {
    int m = gen_dim(r, D), n = gen_dim(r, D);
    int kind = (int)rng_below(r, 5);
    if (kind == 3) sb_printf(o, "mat %d %d %d rand 128 %llu\n", rb, m, n, (unsigned long long)(rng_u64(r) >> 1));
    else emit_mat(r, o, rb, m, n, NULL, 0);
    int nb = 1 + (int)rng_below(r, (uint64_t)(n < 64 ? n : 64));
    if (rng_chance(r, 1, 3) && n >= 64) nb = 64;
    int y = rng_chance(r, 1, 2) ? n - nb : (int)rng_below(r, (uint64_t)(n - nb + 1)); /* often flush with the last column */
    int x = rng_chance(r, 1, 2) ? m - 1 : (int)rng_below(r, (uint64_t)m);               /* often the last row: a stray access to the next word leaves the block */
    sb_printf(o, "op bits %d %d %d %d %d %llu\n", rb, x, y, nb, kind, (unsigned long long)(rng_u64(r) >> 2));
    return 1;
  }
  if (IS("combine")) {
    int m = gen_dim(r, D > 100 ? 100 : D), n = wide_ok ? width_cols(r, g_strat) : gen_dim(r, D);
    int inplace = (int)rng_below(r, 3) == 0;
    emit_mat(r, o, rb + 1, m, n, NULL, 0);
    emit_mat(r, o, rb + 2, m, n, NULL, 0);
    if (!inplace) emit_mat(r, o, rb, m, n, "rand", 128);
    int w = (n + 63) / 64;
    int sb = rng_chance(r, 1, 3) ? 0 : (int)rng_below(r, (uint64_t)w);
    int ar = (int)rng_below(r, (uint64_t)m);
    sb_printf(o, "op combine %d %d %d %d %d %d %d\n", inplace ? rb + 1 : rb, inplace ? ar : (int)rng_below(r, (uint64_t)m), rb + 1, ar, rb + 2, (int)rng_below(r, (uint64_t)m), sb);
    return 3;
  }
  if (IS("m4rm_step")) {
    int m = gen_dim(r, D), n = gen_dim(r, D);
    int k = 1 + (int)rng_below(r, 8);
    if (k > n) k = n;
    emit_mat(r, o, rb, m, n, NULL, 0);
    sb_printf(o, "op m4rm_step %d %d %d %d\n", rb, (int)rng_below(r, (uint64_t)m), rng_chance(r, 1, 3) ? n - k : (int)rng_below(r, (uint64_t)(n - k + 1)), k);
    return 1;
  }
  if (IS("trtri_russian")) {
    int n = gen_dim(r, D);
    emit_mat(r, o, rb, n, n, "uut", 0);
    sb_printf(o, "op trtri_russian %d %d\n", rb, (int)rng_below(r, 9));
    return 1;
  }
  if (IS("hash") || IS("fprint") || IS("info")) {
    int m = gen_dim(r, IS("hash") ? D : (D > 200 ? 200 : D)), n = gen_dim(r, D);
    emit_mat(r, o, rb, m, n, NULL, 0);
    if (IS("info")) sb_printf(o, "op info %d %d\n", rb, (int)rng_below(r, 2));
    else sb_printf(o, "op %s %d\n", op, rb);
    return 1;
  }
  if (IS("mzp_set_ui")) {
    emit_perm(r, o, pb, gen_dim(r, D), "junk");
    sb_printf(o, "op mzp_set_ui %d %d\n", pb, (int)rng_below(r, 3));
    return 0;
  }
  if (IS("from_str")) {
    int m = gen_dim(r, D > 200 ? 200 : D), n = gen_dim(r, D > 200 ? 200 : D);
    sb_printf(o, "op from_str %d %d %d %llu\n", rb, m, n, (unsigned long long)(rng_u64(r) >> 1));
    return 1;
  }
  if (IS("window_cycle")) {
    int m = gen_dim(r, D), n = gen_dim(r, D);
    emit_mat(r, o, rb, m, n, NULL, 0);
    int r0 = (int)rng_below(r, (uint64_t)m), r1 = r0 + 1 + (int)rng_below(r, (uint64_t)(m - r0));
    int c0 = (int)rng_below(r, (uint64_t)((n + 63) / 64));
    int c1 = c0 * 64 + 1 + (int)rng_below(r, (uint64_t)(n - c0 * 64));
    sb_printf(o, "op window_cycle %d %d %d %d %d\n", rb, r0, c0, r1, c1);
    return 1;
  }
  if (IS("window_burst")) {
    int m = gen_dim(r, D > 100 ? 100 : D), n = gen_dim(r, D);
    int cnts[] = { 63, 64, 65, 70, 130, 200, 3, 1030 };
    emit_mat(r, o, rb, m, n, NULL, 0);
    sb_printf(o, "op window_burst %d %d\n", rb, cnts[rng_below(r, 8)]);
    return 1;
  }
  if (IS("to_png") || IS("from_png")) { /* write (and read back) through the simulated file layer */
    int m = gen_dim(r, D > 300 ? 300 : D), n = gen_dim(r, D > 300 ? 300 : D);
    if (rng_chance(r, 1, 3)) { m = 1 + (int)rng_below(r, 4); n = 8192 + (int)rng_below(r, 900); } /* rows of more than a kilobyte */
    emit_mat(r, o, rb, m, n, NULL, 0);
    sb_printf(o, "op to_png %d 0 %d %d\n", rb, (int)rng_below(r, 11) - 1, (int)rng_below(r, 3));
    if (IS("from_png")) sb_printf(o, "op from_png %d 0\n", rb + 1);
    return 2;
  }
  if (IS("from_jcf")) {
    int m = gen_dim(r, D > 300 ? 300 : D), n = gen_dim(r, D > 300 ? 300 : D);
    sb_printf(o, "op jcf_file 0 %d %d %d %llu\n", m, n, (int)rng_below(r, (uint64_t)(m * 3 + 1)), (unsigned long long)(rng_u64(r) >> 1));
    sb_printf(o, "op from_jcf %d 0\n", rb);
    return 1;
  }
  if (IS("reinit")) { sb_printf(o, "op reinit\n"); return 0; }
  return -1;
#undef IS
}
