/* Operation table: name -> real library call (through a per-variant vtable),
 * program parser/executor shared by all engines. */
#ifndef M4SIM_OPS_H
#define M4SIM_OPS_H
#include "core/sim.h"
#include <m4ri/m4ri.h>

/* ---- per-variant vtable ---- */
#define LIBFUNCS(X)                                                                         \
  X(mzd_t *, mzd_init, (rci_t, rci_t))                                                      \
  X(void, mzd_free, (mzd_t *))                                                              \
  X(mzd_t *, mzd_init_window, (mzd_t *, rci_t, rci_t, rci_t, rci_t))                        \
  X(mzd_t *, mzd_copy, (mzd_t *, mzd_t const *))                                            \
  X(mzd_t *, mzd_add, (mzd_t *, mzd_t const *, mzd_t const *))                              \
  X(mzd_t *, mzd_transpose, (mzd_t *, mzd_t const *))                                       \
  X(mzd_t *, mzd_submatrix, (mzd_t *, mzd_t const *, rci_t, rci_t, rci_t, rci_t))           \
  X(mzd_t *, mzd_concat, (mzd_t *, mzd_t const *, mzd_t const *))                           \
  X(mzd_t *, mzd_stack, (mzd_t *, mzd_t const *, mzd_t const *))                            \
  X(mzd_t *, mzd_extract_u, (mzd_t *, mzd_t const *))                                       \
  X(mzd_t *, mzd_extract_l, (mzd_t *, mzd_t const *))                                       \
  X(void, mzd_set_ui, (mzd_t *, unsigned int))                                              \
  X(int, mzd_equal, (mzd_t const *, mzd_t const *))                                         \
  X(int, mzd_cmp, (mzd_t const *, mzd_t const *))                                           \
  X(int, mzd_is_zero, (mzd_t const *))                                                      \
  X(rci_t, mzd_first_zero_row, (mzd_t const *))                                             \
  X(mzd_t *, mzd_mul_naive, (mzd_t *, mzd_t const *, mzd_t const *))                        \
  X(mzd_t *, mzd_addmul_naive, (mzd_t *, mzd_t const *, mzd_t const *))                     \
  X(mzd_t *, _mzd_mul_va, (mzd_t *, mzd_t const *, mzd_t const *, int))                     \
  X(mzd_t *, _mzd_mul_naive, (mzd_t *, mzd_t const *, mzd_t const *, int))                  \
  X(mzd_t *, mzd_mul_m4rm, (mzd_t *, mzd_t const *, mzd_t const *, int))                    \
  X(mzd_t *, mzd_addmul_m4rm, (mzd_t *, mzd_t const *, mzd_t const *, int))                 \
  X(mzd_t *, mzd_mul, (mzd_t *, mzd_t const *, mzd_t const *, int))                         \
  X(mzd_t *, mzd_addmul, (mzd_t *, mzd_t const *, mzd_t const *, int))                      \
  X(rci_t, mzd_echelonize_naive, (mzd_t *, int))                                            \
  X(rci_t, mzd_echelonize_m4ri, (mzd_t *, int, int))                                        \
  X(rci_t, mzd_echelonize_pluq, (mzd_t *, int))                                             \
  X(rci_t, mzd_echelonize, (mzd_t *, int))                                                  \
  X(void, mzd_top_echelonize_m4ri, (mzd_t *, int))                                          \
  X(rci_t, mzd_ple, (mzd_t *, mzp_t *, mzp_t *, int))                                       \
  X(rci_t, mzd_pluq, (mzd_t *, mzp_t *, mzp_t *, int))                                      \
  X(rci_t, _mzd_ple_naive, (mzd_t *, mzp_t *, mzp_t *))                                     \
  X(rci_t, _mzd_pluq_naive, (mzd_t *, mzp_t *, mzp_t *))                                    \
  X(rci_t, _mzd_ple_russian, (mzd_t *, mzp_t *, mzp_t *, int))                              \
  X(rci_t, _mzd_pluq_russian, (mzd_t *, mzp_t *, mzp_t *, int))                             \
  X(void, mzd_trsm_upper_left, (mzd_t const *, mzd_t *, int))                               \
  X(void, mzd_trsm_lower_left, (mzd_t const *, mzd_t *, int))                               \
  X(void, mzd_trsm_upper_right, (mzd_t const *, mzd_t *, int))                              \
  X(void, mzd_trsm_lower_right, (mzd_t const *, mzd_t *, int))                              \
  X(mzd_t *, mzd_trtri_upper, (mzd_t *))                                                    \
  X(mzd_t *, mzd_inv_m4ri, (mzd_t *, mzd_t const *, int))                                   \
  X(mzd_t *, mzd_invert_naive, (mzd_t *, mzd_t const *, mzd_t const *))                     \
  X(int, mzd_solve_left, (mzd_t *, mzd_t *, int, int))                                      \
  X(int, mzd_pluq_solve_left, (mzd_t const *, rci_t, mzp_t const *, mzp_t const *, mzd_t *, int, int)) \
  X(mzd_t *, mzd_kernel_left_pluq, (mzd_t *, int))                                          \
  X(void, mzd_apply_p_left, (mzd_t *, mzp_t const *))                                       \
  X(void, mzd_apply_p_left_trans, (mzd_t *, mzp_t const *))                                 \
  X(void, mzd_apply_p_right, (mzd_t *, mzp_t const *))                                      \
  X(void, mzd_apply_p_right_trans, (mzd_t *, mzp_t const *))                                \
  X(void, mzd_apply_p_right_trans_tri, (mzd_t *, mzp_t const *))                            \
  X(void, mzd_apply_p_right_even_capped, (mzd_t *, mzp_t const *, rci_t, rci_t))            \
  X(void, mzd_apply_p_right_trans_even_capped, (mzd_t *, mzp_t const *, rci_t, rci_t))      \
  X(mzp_t *, mzp_init, (rci_t))                                                             \
  X(void, mzp_free, (mzp_t *))                                                              \
  X(mzp_t *, mzp_copy, (mzp_t *, const mzp_t *))                                            \
  X(mzp_t *, mzp_init_window, (mzp_t *, rci_t, rci_t))                                      \
  X(void, mzp_free_window, (mzp_t *))                                                       \
  X(djb_t *, djb_compile, (mzd_t *))                                                        \
  X(void, djb_apply_mzd, (djb_t *, mzd_t *, const mzd_t *))                                 \
  X(void, djb_print, (djb_t *))                                                             \
  X(void, m4shim_djb_free, (djb_t *))                                                       \
  X(void, m4shim_col_swap, (mzd_t *, rci_t, rci_t))                                         \
  X(void, m4shim_row_swap, (mzd_t *, rci_t, rci_t))                                         \
  X(void, m4shim_row_add_offset, (mzd_t *, rci_t, rci_t, rci_t))                            \
  X(void, m4shim_col_swap_in_rows, (mzd_t *, rci_t, rci_t, rci_t, rci_t))                   \
  X(word, m4shim_read_bits, (mzd_t const *, rci_t, rci_t, int))                             \
  X(int, m4shim_read_bits_int, (mzd_t const *, rci_t, rci_t, int))                          \
  X(void, m4shim_xor_bits, (mzd_t *, rci_t, rci_t, int, word))                              \
  X(void, m4shim_and_bits, (mzd_t *, rci_t, rci_t, int, word))                              \
  X(void, m4shim_clear_bits, (mzd_t *, rci_t, rci_t, int))                                  \
  X(void, m4shim_combine, (mzd_t *, rci_t, wi_t, mzd_t const *, rci_t, wi_t, mzd_t const *, rci_t, wi_t)) \
  X(word, m4shim_hash, (mzd_t const *))                                                     \
  X(void, m4shim_fprint, (FILE *, mzd_t const *))                                           \
  X(void, mzd_row_add, (mzd_t *, rci_t, rci_t))                                             \
  X(void, mzd_copy_row, (mzd_t *, rci_t, mzd_t const *, rci_t))                             \
  X(rci_t, mzd_gauss_delayed, (mzd_t *, rci_t, int))                                        \
  X(double, mzd_density, (mzd_t const *, wi_t))                                             \
  X(double, _mzd_density, (mzd_t const *, wi_t, rci_t, rci_t))                              \
  X(int, mzd_find_pivot, (mzd_t const *, rci_t, rci_t, rci_t *, rci_t *))                   \
  X(void, mzd_randomize_custom, (mzd_t *, m4ri_random_callback, void *))                    \
  X(void, mzd_row_clear_offset, (mzd_t *, rci_t, rci_t))                                    \
  X(void, mzd_make_table, (mzd_t const *, rci_t, rci_t, int, mzd_t *, rci_t *))             \
  X(void, mzd_process_rows, (mzd_t *, rci_t, rci_t, rci_t, int, mzd_t const *, rci_t const *)) \
  X(mzd_t *, mzd_trtri_upper_russian, (mzd_t *, int))                                       \
  X(void, mzd_info, (const mzd_t *, int))                                                   \
  X(void, mzp_set_ui, (mzp_t *, unsigned int))                                              \
  X(mzd_t *, mzd_from_png, (const char *, int))                                             \
  X(int, mzd_to_png, (const mzd_t *, const char *, int, const char *, int))                 \
  X(mzd_t *, mzd_from_jcf, (const char *, int))                                             \
  X(mzd_t *, mzd_from_str, (rci_t, rci_t, const char *))                                    \
  X(void, m4ri_init, (void))                                                                \
  X(void, m4ri_fini, (void))                                                                \
  X(void, m4ri_mmc_cleanup, (void))

#define LIBFUNCS_OMP(X)                                                                     \
  X(mzd_t *, mzd_mul_mp, (mzd_t *, mzd_t const *, mzd_t const *, int))                      \
  X(mzd_t *, mzd_addmul_mp, (mzd_t *, mzd_t const *, mzd_t const *, int))

#include <m4ri/mmc.h>
typedef struct lib {
  const char *name;
  int sse2, mmc, mzdcache, openmp, knobs;
  mmb_t *mmc_cache; /* the block cache of this variant (NULL when compiled out); read-only use by the harness, for reach probes only */
  int mmc_nblocks;  /* its number of slots (__M4RI_MMC_NBLOCKS of that tree; 0 if the macro is gone: the probes are then skipped) */
#define X(r, n, a) r(*n) a;
  LIBFUNCS(X)
  LIBFUNCS_OMP(X)
#undef X
} lib_t;

extern const lib_t *const m4sim_libs[]; /* generated libs.c */
extern const int m4sim_nlibs;
const lib_t *lib_by_name(const char *name);

extern int gen_fresh_world_has_zero_surroundings;
extern int m4sim_l1, m4sim_l2, m4sim_l3; /* run-time cache knobs (DESIGN 2.2) */

/* ---- execution context ---- */
#define NREG 32
#define NPREG 8
#define NFILE 8
typedef struct {
  const lib_t *L;
  mzd_t *m[NREG];
  int parent[NREG];   /* -1: owner, else register of the parent (window) */
  int nwin[NREG];     /* live windows on this register */
  mzp_t *p[NPREG];
  mzd_t *hid[NREG];   /* hidden parents of window operands created by `wmat` (slot = register of the window) */
  long ret[64];
  int nret;
  uint64_t ophash;    /* rolling hash of scalar results */
  int skipped;        /* an op refused its arguments (program invalid / domain guard) */
  char skipwhy[96];
  int pad_violation;  /* register with dirty excess bits, -1 none */
  int pad_stride_dirty; /* count of owned matrices whose odd-width stride padding word is non-zero */
  int check_padding;
  int nops;
} ctx_t;

enum { OP_OK = 0, OP_SKIP = 1 };

typedef struct {
  const char *name;
  int (*fn)(ctx_t *c, const long *a);
  int nargs;
  const char *argdoc;
} opdesc_t;
extern const opdesc_t op_table[];
extern const int op_count;
const opdesc_t *op_find(const char *name);

void ctx_init(ctx_t *c, const lib_t *L);
void ctx_free_all(ctx_t *c);          /* frees every register through the library */
uint64_t ctx_hash(const ctx_t *c);    /* value hash of all registers (bits inside the columns only) + scalars */
uint64_t mat_hash(const mzd_t *M, uint64_t h);
int ctx_check_padding(ctx_t *c);      /* returns register index with dirty excess bits or -1 */
int mat_padding_dirty(const mzd_t *M);       /* excess bits of last word */
int mat_stride_padding_dirty(const mzd_t *M);/* odd-width stride word */

/* one program line; returns 0 ok, 1 skipped/invalid, -1 parse error */
int prog_exec_line(ctx_t *c, const char *line);
/* whole program text; stops at first skip; per-line callback (may be NULL) runs after each executed line */
typedef int (*prog_cb)(ctx_t *c, int lineno, const char *line, void *ud);
int prog_exec(ctx_t *c, const char *text, prog_cb cb, void *ud);

/* matrix generators (harness arithmetic, never the library's) */
extern uint64_t gen_world_seed;
void gen_fill(mzd_t *M, const char *gen, long p, uint64_t seed);
void gen_perm(mzp_t *P, const char *gen, uint64_t seed, rci_t bound);
int strassen_guard_ok(long m, long k, long n, long cutoff);

/* text buffer helper */
typedef struct { char *s; size_t n, cap; } sbuf_t;
void sb_printf(sbuf_t *b, const char *fmt, ...) __attribute__((format(printf, 2, 3)));
void sb_reset(sbuf_t *b);

#endif
