#!/usr/bin/env python3
"""Run the checks against the seeded breaking changes in /verif/seeded/<id>/patch.diff (each applied to a scratch
worktree of /repo, selected through M4SIM_REPO).  usage: seedrun.py [id ...] [--tier quick|thorough] [--check Cxx]"""
import os, subprocess, sys, glob, time, json, re
HERE = os.path.dirname(os.path.abspath(__file__))
VERIF = os.path.dirname(HERE)

def main():
    a = sys.argv[1:]
    tier, ids, forced = "quick", [], None
    i = 0
    while i < len(a):
        if a[i] == "--tier": tier = a[i + 1]; i += 2
        elif a[i] == "--check": forced = a[i + 1]; i += 2
        else: ids.append(a[i]); i += 1
    ids = ids or sorted(os.path.basename(d) for d in glob.glob(os.path.join(VERIF, "seeded", "*")) if os.path.isdir(d))
    wt = "/tmp/wt_seed_%d" % os.getpid()
    subprocess.run(["git", "-C", "/repo", "worktree", "add", "-q", "--detach", wt, "HEAD"], check=True)
    try:
        for sid in ids:
            patch = os.path.join(VERIF, "seeded", sid, "patch.diff")
            meta = json.load(open(os.path.join(VERIF, "seeded", sid, "meta.json")))
            prop = forced or meta.get("property", sid[:3])
            subprocess.run(["git", "-C", wt, "checkout", "-q", "--", "."], check=True)
            r = subprocess.run(["git", "-C", wt, "apply", patch])
            if r.returncode != 0:
                print("%-8s PATCH-FAILED" % sid); continue
            env = dict(os.environ, M4SIM_REPO=wt)
            t0 = time.time()
            p = subprocess.run([os.path.join(VERIF, "check"), prop, "--tier", tier], cwd=VERIF, env=env, stdout=subprocess.PIPE, stderr=subprocess.STDOUT, text=True)
            viols = re.findall(r"^VIOLATION property=(\S+)", p.stdout, re.M)
            sigs = sorted(set(re.findall(r"signature=(\S+)", p.stdout)))
            outcome = "caught" if prop in viols else ("caught-as-" + viols[0] if viols else ("HARNESS" if p.returncode == 2 else "missed"))
            print("%-8s check=%s tier=%s %-16s %5.1fs %s" % (sid, prop, tier, outcome, time.time() - t0, ",".join(sigs)[:200]), flush=True)
            if outcome == "HARNESS":
                print(p.stdout[-1200:])
    finally:
        subprocess.run(["git", "-C", "/repo", "worktree", "remove", "--force", wt])
        subprocess.run("rm -rf %s/replays/*" % VERIF, shell=True)

if __name__ == "__main__":
    main()
