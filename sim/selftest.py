#!/usr/bin/env python3
"""Self-test of the simulated OpenMP runtime and the access monitor (sim/core/sched.c): small OpenMP kernels with known answers
(barrier phases, dynamic / guided loops, two loops in one region, single + atomic + critical, sections inside a region, locks, tasks)
must give exact results and no reported conflict for every seed and team size; two racy kernels must be reported in every run with
a team > 1.  usage: selftest.py [nseeds]   exit 0 ok / 1 failed"""
import os, subprocess, sys, tempfile, shutil
HERE = os.path.dirname(os.path.abspath(__file__))

def main():
    n = sys.argv[1] if len(sys.argv) > 1 else "200"
    d = tempfile.mkdtemp(prefix="m4sim.selftest.", dir=os.environ.get("TMPDIR", "/var/tmp"))
    try:
        cc = lambda args: subprocess.run(["gcc"] + args, check=True)
        cc(["-O1", "-g", "-fopenmp", "-fsanitize=thread", "-c", os.path.join(HERE, "selftest/omp_prog.c"), "-o", d + "/prog.o"])
        sys.path.insert(0, HERE)
        import build
        redefs = []
        for sname in build.MON_SEAMS:
            if sname.startswith("pthread_"): redefs += ["--redefine-sym", "%s=m4sim_%s" % (sname, sname)]
        subprocess.run(["objcopy"] + redefs + [d + "/prog.o"], check=True)   # the same seams the `mon` flavour of the library gets
        objs = [d + "/prog.o"]
        for f in ["selftest/omp_main.c", "core/sched.c", "core/heap.c", "core/die.c", "core/fs.c"]:
            o = d + "/" + os.path.basename(f)[:-2] + ".o"
            cc(["-O2", "-g", "-std=gnu11", "-I", os.path.join(HERE, "core"), "-I", HERE, "-c", os.path.join(HERE, f), "-o", o])
            objs.append(o)
        cc(["-no-pie", "-o", d + "/selftest"] + objs + ["-lm"])
        return subprocess.run([d + "/selftest", n]).returncode
    finally:
        shutil.rmtree(d, ignore_errors=True)

if __name__ == "__main__":
    sys.exit(main())
