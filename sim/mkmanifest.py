#!/usr/bin/env python3
"""Regenerates /verif/MANIFEST.json from the tables below (keeps it valid and in one place)."""
import json, os

VERIF = os.path.dirname(os.path.dirname(os.path.abspath(__file__)))

NA = {
    "C01": "pure function of (A, B, k, cutoff): no schedule, clock, fault or history in the statement; its multi-core clause is decided under C16 and its configuration clause under C12 (as equality across schedules/configurations)",
    "C02": "pure function of the input matrix; configuration clause decided under C12",
    "C03": "pure function of the input matrix and of the junk in P, Q (which is input); configuration clause decided under C12",
    "C04": "pure function of (T, B, cutoff); configuration clause decided under C12",
    "C05": "pure function of the input matrix; configuration clause decided under C12",
    "C06": "pure function of (A, B); configuration clause decided under C12",
    "C07": "pure function of the input matrix",
    "C08": "pure data movement on the arguments",
    "C09": "parent content and window placement are inputs; nothing environmental in the statement",
    "C13": "pure function of (matrix, indices, permutation); its cache-size clause is exercised under C12",
    "C17": "pure predicates on the arguments",
    "C19": "finite tables and word kernels, pure; nothing environmental",
}

# property -> dict(engine, level, text, note, technique, design_ref)
CLAIMED = {}

CLAIMED["C20"] = dict(
    engine="oom", level="fault_enumeration", design_ref="DESIGN.md section 3, C20",
    technique="deterministic simulation with fault injection: simulated heap behind a link-time seam, every allocation request of each seeded scenario made to fail in turn, process fate classified",
    text="For each seeded scenario program (every operation of the table incl. >64 and >1024 simultaneously live headers, data blocks above the cache threshold, operands that are views, 4 build variants, cold and warm caches, small and shipped cache knobs; "
         "plus the OpenMP builds running mul_mp/addmul_mp/M4RM/M4RI on the simulated runtime with a team of 3) "
         "every single allocation request i = 0..N-1 is made to fail in its own forked execution under ASan/UBSan; the only admissible fate is abort "
         "reached from library code with a diagnostic on stderr. Exhaustive over fault positions per scenario, sampling over scenarios.",
    note="Trusts: the heap seam sees every allocation of library objects (objcopy symbol redirection of malloc/calloc/realloc/posix_memalign/free); "
         "requests made by libpng/zlib/libc on the library's behalf are outside the seam; ASan/UBSan report what happens after the failed request.")

CLAIMED["C18"] = dict(
    engine="fs", level="fault_enumeration", design_ref="DESIGN.md section 3, C18",
    technique="deterministic simulation with fault injection: simulated file system (fopencookie) and clock under the real readers/writers, libpng and zlib; torn files at every offset, bit flips, EIO, short reads, ENOSPC, open/close failures, foreign writers; fates judged against an admissible set and a reference JCF reader",
    text="Fault-free plane: write/read round trips for every compression level and comment kind (with and without 1..7-byte short reads) must return an equal matrix; "
         "JCF and string constructors are compared with reference readers. Fault planes, one forked execution under ASan/UBSan each: every truncation offset of files produced by the "
         "real writer, single-bit flips (complete for small files), EIO at seeded offsets, PNGs of every valid bit depth x colour type x interlacing written by libpng directly, "
         "every listed JCF corruption, torn JCF text, and write-side faults. Admissible: NULL, termination by libpng/m4ri_die, or a matrix equal to the reference (a truncated PNG - a proper prefix of the file - must be rejected: NULL or termination only); never a sanitizer report, "
         "a signal, a differing matrix, dirty padding or an accepted unsupported/malformed file.",
    note="Trusts ASan/UBSan to expose accesses outside allocated buffers; libpng/zlib internals are real but their own allocations are outside the ledger; "
         "the reference JCF reader is 30 lines written from the format description in io.h.")

CLAIMED["C14"] = dict(
    engine="alloc", level="exploration", design_ref="DESIGN.md section 3, C14",
    technique="deterministic simulation: seeded allocation histories against a reference model on a simulated heap that recycles blocks immediately and hands them out dirty; ledger of every library allocation",
    text="Seeded histories (20-3000 steps) of init / init_window / free / fill / arithmetic touch / fini+init, steered through the mechanisms (exact-size cache hits, >=17 distinct sizes, "
         "sizes around the cache threshold with the L3 knob drawn small, 64/128/1024+ live headers and back in random order), in four build variants and two flavours (ASan+UBSan; plain with an "
         "exact-size recycling, dirtying allocator). After every step: fresh matrix zero in every word of its allocation, storage disjoint from every live object, headers and contents equal to the model, "
         "no invalid/double free, windows never release data; at quiescence at most 16 blocks retained, after m4ri_fini() none.",
    note="Sampling over histories (a clean batch is evidence, not proof). The model is ~150 lines; content is compared completely every 64 steps and at the end, 6 random owners after each step.")

CLAIMED["C10"] = dict(
    engine="hist", level="exploration", design_ref="DESIGN.md section 3, C10",
    technique="deterministic simulation: the same probe call replayed in several simulated worlds (seeded call-history prefix, dirty/recycling heap behind the allocation seam, junk in overwritten destinations); outcomes compared bit for bit with the fresh world; padding invariant after every call",
    text="For each operation of the table a seeded probe call (operands from structured generators, all routes, k and cutoff drawn, cache knobs small in half of the runs) is executed in 4 (quick) / 8 (thorough) "
         "worlds in one forked process: world 0 is what the test-suite sees (no history, zeroed heap), the others have a prefix of up to 24 other library calls, a heap that fills fresh blocks with 0xFF / 0xA5 / random words / "
         "small indices / stale content and recycles freed blocks immediately, junk in every destination and permutation the call overwrites, and - for operands that are views into larger matrices - different content around the view. Every result matrix, permutation, scalar return and the fate of the call must equal "
         "world 0; excess bits of every owned matrix must be zero after every call (prefix included). Two flavours: ASan+UBSan and plain -O2 with the recycling allocator; four build variants.",
    note="Differential against the same tree: a wrong value computed identically in all worlds is silent (C01-C08 are not claimed). Sampling over probe calls and worlds.")

CLAIMED["C11"] = dict(
    engine="hist", level="exploration", design_ref="DESIGN.md section 3, C11",
    technique="deterministic simulation with fault injection on the allocation seam: ledger of every library allocation across simulated call histories (temporaries released, frees valid), forked ill-dimensioned calls with operand snapshots compared at the simulated abort, all workloads under ASan/UBSan",
    text="Decided on the seams: (1) after every world of the hist engine - prefix calls, probe call, everything returned freed, block cache cleaned - the set of live library allocations must equal the set before, "
         "and in builds with the header cache a black-box probe checks that the static pool has all 64 slots free; frees of unknown or already freed pointers are recorded by the ledger; "
         "(2) for each of the 21 checked public wrappers, calls with one dimension perturbed are executed in a forked child: the only admissible fate is m4ri_die with a diagnostic and every operand bit unchanged at the moment of death; "
         "(3) the same workloads run with 16-byte aligned plain malloc (no-SSE2 variant), 64-byte aligned blocks, and window operands whose rows are 8 mod 16; (4) the write-side fault plane of the fs engine (temporaries released on I/O error paths). The input-universal clause (no out-of-bounds/UB for every valid input) is only sampled by these workloads under ASan+UBSan.",
    note="Sanitizers are trusted to report what they can see; UB they cannot see and shapes the generators never reach are outside. Leaks of libpng/zlib are outside the ledger.")

CLAIMED["C16"] = dict(
    engine="omp", level="exploration", design_ref="DESIGN.md section 3, C16",
    technique="deterministic simulation: the real -fopenmp build of the library runs on a simulated OpenMP runtime (own GOMP_*/omp_* entry points) with a seeded scheduler over cooperative tasks preempting between individual memory accesses, and a vector-clock happens-before access monitor fed by the compiler's -fsanitize=thread callbacks",
    text="Workloads (SSE2 and no-SSE2 OpenMP builds; a quarter of the operands are views into larger matrices): mzd_(add)mul_mp (C given and NULL), mzd_(add)mul, squaring, M4RM products, M4RI elimination/top-reduction/inversion, PLE/PLUQ, solve, kernel, with shapes around 128j +- {0,1,63,64,65}, >512-row operands for the static-chunk loops, "
         "cutoffs 64/128/192/0. Per run: sequential reference (same entry point of the sequential build; for the _mp front ends the same code with the runtime disabled AND the sequential mzd_(add)mul), "
         "a team of n in 1..16 without preemption, and one seeded schedule (random-walk or PCT-style preemption; team size per region, nested teams and who grabs which section are scheduler choices). "
         "Oracles: bit-identical outcome, no conflicting unordered accesses (HB from fork/join and critical sections only), every region joins within 20x the unpreempted event count, allocations balanced. "
         "Control on every invocation: runtime with critical sections disabled must be flagged.",
    note="The simulated runtime is conforming but is not libgomp; one task runs at a time (interleavings at instrumented-access granularity, no weak-memory effects). Sampling over shapes and schedules.")

CLAIMED["C15"] = dict(
    engine="thr", level="exploration", design_ref="DESIGN.md section 3, C15",
    technique="deterministic simulation: 2-16 simulated caller threads (cooperative tasks) drive the thread-safe build under a seeded scheduler that preempts between individual memory accesses; vector-clock happens-before access monitor on the compiler's -fsanitize=thread callbacks; per-thread results compared with solo runs",
    text="Each run: every thread executes its own seeded sequence of 2-12 library calls (any operation of the table except file I/O and mzd_randomize) on operands it creates itself; first all threads one after the other, "
         "then under one seeded schedule (random-walk or PCT-style preemption at memory accesses, function entries and heap calls; seeded creation order), finally each sequence solo. Oracles: the monitor, whose only ordering edges are "
         "thread creation/join and free->malloc, must see no conflicting unordered access anywhere in library code (independent of whether the bad interleaving occurred); every thread's outcome hash equals its solo run; allocations balanced. "
         "Every fifth run is focused: 2-3 threads execute the same operation in its recursive / wide regimes (smallest cache knobs). Control on every invocation: the default (non-thread-safe) build under the same workload must be flagged.",
    note="One task runs at a time (no weak-memory effects); the allocator behind the seam is assumed thread-safe; sampling over workloads and schedules.")

CLAIMED["C12"] = dict(
    engine="cfg", level="exploration", design_ref="DESIGN.md section 3, C12",
    technique="deterministic simulation, configuration swarm: build variants {sse2,no-sse2} x {caches,thread-safe} x {sequential,OpenMP on the simulated runtime} linked side by side with the shipped default configuration; cache sizes as per-run knobs through the generated m4ri_config.h; seeded k, cutoff, team size",
    text="For each operand set (structured generators; dimensions at and around the thresholds the drawn cache sizes imply, multiples of 64 +-1, low-rank blocks) one operation family - product, accumulate (incl. squaring and the _mp front ends), "
         "RREF + rank (all echelonisers, full in {0,1} completed by the top reduction), inverse, four TRSMs, trtri, solve verdict with A*X, P*L*U*Q and P*L*E reconstructed with the reference arithmetic + rank - is evaluated under 12 (quick) / 24 (thorough) "
         "configurations (variant, L1<=L2<=L3 from {4K..64K}x{32K..4M}x{64K..64M}, k in 0..10, cutoff in {0,64,..,2048,100}, team size 1..16) and must equal the same entry point in the shipped default configuration with k = 0 and cutoff = 0, bit for bit. "
         "Two shape classes outside the usual box: flat operands (one dimension 1..8, another beyond L3/3 columns of the smallest L3) and products with all dimensions just above 4096 (where the automatic k reaches its upper end). "
         "A varied configuration that does not return within 60x the CPU time of the shipped one (at least 4 s) is a violation too (no result is a different result).",
    note="Purely differential against the same tree. Knob builds turn the cache-size constants into loads (the three '#if X == 0' fix-ups are skipped as for any non-zero size). Quick links 4 of 8 variants.")

NOT_BUILT = {}


def main():
    checks = []
    for pid in sorted(CLAIMED):
        c = CLAIMED[pid]
        checks.append(dict(
            property_id=pid,
            quick_cmd="./check %s --tier quick" % pid,
            thorough_cmd="./check %s --tier thorough" % pid,
            evidence_file="evidence/%s.json" % pid,
            replay_cmd_template="./check %s --replay {path}" % pid,
            engine=c["engine"],
            level_claimed=dict(category=c["level"], text=c["text"], design_ref=c["design_ref"]),
            level_note=c["note"],
            technique=c["technique"]))
    na = [dict(property_id=p, reason="not applicable to deterministic simulation: " + r) for p, r in sorted(NA.items())]
    na += [dict(property_id=p, reason=r) for p, r in sorted(NOT_BUILT.items())]
    m = dict(
        version=1,
        setup_cmd="python3 sim/build.py",
        hooks=dict(guard="M4RI_VERIF", enable="no hook in /repo is needed: all seams are taken at build time (generated m4ri_config.h, objcopy symbol redirection, own OpenMP runtime and -fsanitize=thread callbacks); the guard name is reserved and unused",
                   baseline_off_cmd="cd /repo && make check", source_commits=[], add_only=True),
        engines=[
            dict(name="oom", path="sim/eng/oom.c", serves_properties=["C20"], kind_free_text="allocation-failure enumeration in forked children over the simulated heap"),
            dict(name="alloc", path="sim/eng/alloc.c", serves_properties=["C14"], kind_free_text="allocation histories against a reference model over the simulated (recycling, dirtying) heap"),
            dict(name="hist", path="sim/eng/hist.c", serves_properties=["C10", "C11"], kind_free_text="same call in several simulated worlds (history, heap content, destination junk); allocator ledger; forked ill-dimensioned calls"),
            dict(name="omp", path="sim/eng/omp.c", serves_properties=["C16"], kind_free_text="real OpenMP build on the simulated runtime/scheduler/monitor of sim/core/sched.c"),
            dict(name="thr", path="sim/eng/thr.c", serves_properties=["C15"], kind_free_text="simulated caller threads on the thread-safe build; scheduler and HB monitor of sim/core/sched.c"),
            dict(name="cfg", path="sim/eng/cfg.c", serves_properties=["C12"], kind_free_text="configuration/knob swarm: build variants side by side, differential against the shipped default configuration"),
            dict(name="fs", path="sim/eng/fs.c", serves_properties=["C18"], kind_free_text="simulated file system and clock under the real PNG/JCF readers and writers; fault enumeration in forked children"),
        ],
        checks=checks,
        not_applicable=na,
        notes="All checks rebuild the library from /repo's working tree into a scratch directory under $TMPDIR (default /var/tmp) and remove it. "
              "Exit 2 means the harness distrusts itself (determinism gate, failed control, build failure) and is never accompanied by a VIOLATION line.")
    with open(os.path.join(VERIF, "MANIFEST.json"), "w") as f:
        json.dump(m, f, indent=1)
        f.write("\n")


if __name__ == "__main__":
    main()
