#!/usr/bin/env python3
"""Sensitivity campaign (DESIGN.md section 5): apply each mutant patch of sim/mutants/ to a scratch worktree of /repo,
run the property's check against it (M4SIM_REPO), record whether a violation of that property was reported.
usage: sensitivity.py PROP [--tier quick|thorough] [--only substring] [--seed N]"""
import os, subprocess, sys, glob, time, json, re
HERE = os.path.dirname(os.path.abspath(__file__))
VERIF = os.path.dirname(HERE)
SILENT = {"C14_m6_threshold_off_by_one_lookup", "C16_m5_neutral_chunk_64", "C15_m4_neutral_loop_direction", "C12_m5_neutral_k_clause_threshold", "C12_m6_strassen_deep_split_uneven",
          "C10_m3_neutral_add_rewritten_equivalently", "C18_m1_neutral_png_read_row_buffer_exact",
          "C11_r5_revert_top_echelonize_alignment",
          # property-preserving changes that use constructs the simulated runtime has to understand (DESIGN.md section 10, corrections 24-25)
          "C16_n1_neutral_one_team_per_block_with_barrier", "C16_n2_neutral_dynamic_schedule_process_rows",
          "C15_n1_neutral_thread_local_scratch_mul_naive", "C15_n2_neutral_memo_under_pthread_mutex",
          "C14_n1_neutral_aligned_alloc", "C20_n1_neutral_aligned_alloc"}  # C11 aligned_alloc instead of _mm_malloc: the seam has to know the whole allocation family
# C11_r5 reverts fix 57671ea (phase of the lookup tables in mzd_top_echelonize_m4ri).  Since fix f7723d3 the multi-table kernels read their
# tables with unaligned loads, so either fix alone removes the fault: reverting only the first one no longer breaks C11.
# C10_m5 (_mzd_mul_naive leaves a full last word of C uncleared) was listed here while the kernel was only reached through mzd_mul_naive / M4RM strips
# narrower than 54 columns; since the operation mul_naive_t calls the documented kernel directly it breaks C10 and is expected to be caught.
# m6 turned out to be equivalent: Strassen-Winograd is correct for any word-aligned split  # mutants that do NOT break the property: the check must stay silent

def main():
    a = sys.argv[1:]
    prop = a[0]
    tier, only, seed = "quick", None, None
    i = 1
    while i < len(a):
        if a[i] == "--tier": tier = a[i + 1]; i += 2
        elif a[i] == "--only": only = a[i + 1]; i += 2
        elif a[i] == "--seed": seed = a[i + 1]; i += 2
        else: i += 1
    wt = "/tmp/wt_sens_%d" % os.getpid()
    subprocess.run(["git", "-C", "/repo", "worktree", "add", "-q", "--detach", wt, "HEAD"], check=True)
    results = []
    try:
        for d in sorted(glob.glob(os.path.join(HERE, "mutants", prop + "_*.diff"))):
            name = os.path.basename(d)[:-5]
            if only and only not in name: continue
            subprocess.run(["git", "-C", wt, "checkout", "-q", "--", "."], check=True)
            r = subprocess.run(["git", "-C", wt, "apply", d])
            if r.returncode != 0:
                results.append((name, "PATCH-FAILED", 0)); continue
            env = dict(os.environ, M4SIM_REPO=wt)
            if seed: env["VERIF_SEED"] = seed
            t0 = time.time()
            p = subprocess.run([os.path.join(VERIF, "check"), prop, "--tier", tier], cwd=VERIF, env=env, stdout=subprocess.PIPE, stderr=subprocess.STDOUT, text=True)
            dt = time.time() - t0
            viols = re.findall(r"^VIOLATION property=(\S+)", p.stdout, re.M)
            outcome = "caught" if prop in viols else ("caught-as-" + viols[0] if viols else ("HARNESS" if p.returncode == 2 else "missed"))
            expect = "silent" if name in SILENT else "caught"
            ok = (outcome == "missed") if expect == "silent" else outcome.startswith("caught")
            results.append((name, outcome, dt))
            sigs = re.findall(r"signature=(\S+)", p.stdout)
            print("%-50s %-18s expect=%-7s %s %5.1fs %s" % (name, outcome, expect, "OK " if ok else "BAD", dt, ",".join(sorted(set(sigs)))[:150]), flush=True)
            if outcome == "HARNESS":
                print(p.stdout[-1500:])
    finally:
        subprocess.run(["git", "-C", "/repo", "worktree", "remove", "--force", wt])
        subprocess.run("rm -rf %s/replays/*" % VERIF, shell=True)
    return 0

if __name__ == "__main__":
    sys.exit(main())
