/* F10: matrices with zero columns (m x 0, data == NULL) and empty products: crashes / aborts; run without argument for a table, with a case number to see the sanitizer report */
/* zero-dimension matrices: each case in a forked child, report how it ends */
#include "h.h"
#include <m4ri/djb.h>
#include <sys/wait.h>
#include <unistd.h>
#include <signal.h>
#include <fcntl.h>
typedef void (*fn)(void);
static void c1(void) { mzd_t *A = mzd_init(0, 5); mzd_t *T = mzd_transpose(NULL, A); mzd_free(T); mzd_free(A); }
static void c2(void) { mzd_t *A = mzd_init(5, 0); mzd_t *T = mzd_transpose(NULL, A); mzd_free(T); mzd_free(A); }
static void c3(void) { mzd_t *A = mk(3, 3, 0), *B = mzd_init(3, 0); mzd_t *C = mzd_mul(NULL, A, B, 0); mzd_free(C); mzd_free(A); mzd_free(B); }
static void c4(void) { mzd_t *A = mzd_init(3, 0), *B = mzd_init(0, 3); mzd_t *C = mzd_mul(NULL, A, B, 0); mzd_free(C); mzd_free(A); mzd_free(B); }
static void c5(void) { mzd_t *A = mzd_init(30, 0), *B = mzd_init(0, 100); mzd_t *C = mzd_mul_m4rm(NULL, A, B, 0); if (!mzd_is_zero(C)) abort(); mzd_free(C); mzd_free(A); mzd_free(B); }
static void c6(void) { mzd_t *A = mzd_init(3, 0), *B = mzd_init(3, 0); if (!mzd_equal(A, B)) abort(); mzd_free(A); mzd_free(B); }
static void c7(void) { mzd_t *A = mzd_init(3, 0); if (!mzd_is_zero(A)) abort(); mzd_free(A); }
static void c8(void) { mzd_t *A = mzd_init(3, 0); mzd_set_ui(A, 1); mzd_free(A); }
static void c9(void) { mzd_t *A = mzd_init(3, 0); mzd_t *B = mzd_copy(NULL, A); mzd_free(A); mzd_free(B); }
static void c10(void) { mzd_t *A = mzd_init(3, 0); double d = mzd_density(A, 0); (void)d; mzd_free(A); }
static void c11(void) { mzd_t *A = mzd_init(3, 0); word h = mzd_hash(A); (void)h; mzd_free(A); }
static void c12(void) { mzd_t *A = mzd_init(3, 0); rci_t r = mzd_first_zero_row(A); (void)r; mzd_free(A); }
static void c13(void) { mzd_t *A = mzd_init(3, 0); mzp_t *P = mzp_init(0); mzd_apply_p_right(A, P); mzp_free(P); mzd_free(A); }
static void c14(void) { mzd_t *A = mzd_init(3, 0); mzd_echelonize_m4ri(A, 1, 0); mzd_free(A); }
static void c15(void) { mzd_t *A = mzd_init(0, 3); mzd_echelonize_m4ri(A, 1, 0); mzd_free(A); }
static void c16(void) { mzd_t *A = mzd_init(3, 0); mzd_echelonize_pluq(A, 1); mzd_free(A); }
static void c17(void) { mzd_t *A = mzd_init(0, 3); mzd_echelonize_pluq(A, 1); mzd_free(A); }
static void c18(void) { mzd_t *A = mzd_init(3, 0); mzd_echelonize(A, 1); mzd_free(A); }
static void c19(void) { mzd_t *A = mzd_init(0, 3); mzd_echelonize(A, 0); mzd_free(A); }
static void c20(void) { mzd_t *A = mk(4, 70, 0); mzd_t *S = mzd_submatrix(NULL, A, 0, 5, 3, 5); mzd_free(S); mzd_free(A); }
static void c21(void) { mzd_t *A = mzd_init(0, 0); mzd_t *I = mzd_inv_m4ri(NULL, A, 0); mzd_free(I); mzd_free(A); }
static void c22(void) { mzd_t *A = mzd_init(0, 5); mzd_t *K = mzd_kernel_left_pluq(A, 0); if (K) mzd_free(K); mzd_free(A); }
static void c23(void) { mzd_t *A = mzd_init(5, 0); mzd_t *K = mzd_kernel_left_pluq(A, 0); if (K) mzd_free(K); mzd_free(A); }
static void c24(void) { mzd_t *A = mzd_init(0, 5); djb_t *z = djb_compile(A); djb_free(z); mzd_free(A); }
static void c25(void) { mzd_t *A = mk(5, 5, 0), *B = mzd_init(5, 0); mzd_solve_left(A, B, 0, 1); mzd_free(A); mzd_free(B); }
static void c26(void) { mzd_t *L = mk(5, 5, 0), *B = mzd_init(5, 0); mzd_trsm_lower_left(L, B, 0); mzd_trsm_upper_left(L, B, 0); mzd_free(L); mzd_free(B); }
static void c27(void) { mzd_t *L = mk(5, 5, 0), *B = mzd_init(0, 5); mzd_trsm_lower_right(L, B, 0); mzd_trsm_upper_right(L, B, 0); mzd_free(L); mzd_free(B); }
static void c28(void) { mzd_t *A = mzd_init(3, 0), *B = mk(3, 4, 0); mzd_t *C = mzd_concat(NULL, A, B); mzd_free(C); mzd_free(A); mzd_free(B); }
static void c29(void) { mzd_t *A = mzd_init(3, 0), *B = mzd_init(2, 0); mzd_t *C = mzd_stack(NULL, A, B); mzd_free(C); mzd_free(A); mzd_free(B); }
static void c30(void) { mzd_t *A = mzd_init(3, 0); mzd_randomize(A); mzd_free(A); }
static void c31(void) { mzd_t *A = mzd_init(300, 0); mzp_t *P = mzp_init(300), *Q = mzp_init(0); mzd_ple(A, P, Q, 0); mzp_free(P); mzp_free(Q); mzd_free(A); }
static void c32(void) { mzd_t *A = mzd_init(0, 300); mzp_t *P = mzp_init(0), *Q = mzp_init(300); mzd_pluq(A, P, Q, 0); mzp_free(P); mzp_free(Q); mzd_free(A); }
static void c33(void) { mzd_t *A = mzd_init(3, 0), *B = mzd_init(3, 0); mzd_t *C = mzd_add(NULL, A, B); mzd_free(C); mzd_free(A); mzd_free(B); }
static void c34(void) { mzd_t *A = mzd_init(3, 0), *B = mzd_init(3, 0); int c = mzd_cmp(A, B); (void)c; mzd_free(A); mzd_free(B); }
static void c35(void) { mzd_t *A = mzd_init(3, 0); mzd_top_echelonize_m4ri(A, 0); mzd_free(A); }
static void c36(void) { mzd_t *A = mzd_init(0, 0); mzd_trtri_upper(A); mzd_free(A); }
static void c37(void) { mzd_t *A = mk(3, 3, 0), *B = mzd_init(3, 0); mzd_t *C = mzd_mul_naive(NULL, A, B); mzd_free(C); mzd_free(A); mzd_free(B); }
static void c38(void) { mzd_t *A = mzd_init(3, 0); mzd_gauss_delayed(A, 0, 1); mzd_free(A); }
static struct { fn f; char const *what; } cases[] = {
  {c1, "mzd_transpose(NULL, 0 x 5)"}, {c2, "mzd_transpose(NULL, 5 x 0)"}, {c3, "mzd_mul(NULL, 3x3, 3x0, 0)"},
  {c4, "mzd_mul(NULL, 3x0, 0x3, 0)"}, {c5, "mzd_mul_m4rm(NULL, 30x0, 0x100, 0)"}, {c6, "mzd_equal(3x0, 3x0)"},
  {c7, "mzd_is_zero(3x0)"}, {c8, "mzd_set_ui(3x0, 1)"}, {c9, "mzd_copy(NULL, 3x0)"}, {c10, "mzd_density(3x0, 0)"},
  {c11, "mzd_hash(3x0)"}, {c12, "mzd_first_zero_row(3x0)"}, {c13, "mzd_apply_p_right(3x0, P)"},
  {c14, "mzd_echelonize_m4ri(3x0,1,0)"}, {c15, "mzd_echelonize_m4ri(0x3,1,0)"}, {c16, "mzd_echelonize_pluq(3x0,1)"},
  {c17, "mzd_echelonize_pluq(0x3,1)"}, {c18, "mzd_echelonize(3x0,1)"}, {c19, "mzd_echelonize(0x3,0)"},
  {c20, "mzd_submatrix(NULL, 4x70, 0,5,3,5) (empty column range at unaligned column)"}, {c21, "mzd_inv_m4ri(NULL, 0x0, 0)"},
  {c22, "mzd_kernel_left_pluq(0x5)"}, {c23, "mzd_kernel_left_pluq(5x0)"}, {c24, "djb_compile(0x5)"},
  {c25, "mzd_solve_left(5x5, 5x0)"}, {c26, "mzd_trsm_{lower,upper}_left(5x5, 5x0)"}, {c27, "mzd_trsm_{lower,upper}_right(5x5, 0x5)"},
  {c28, "mzd_concat(NULL, 3x0, 3x4)"}, {c29, "mzd_stack(NULL, 3x0, 2x0)"}, {c30, "mzd_randomize(3x0)"},
  {c31, "mzd_ple(300x0)"}, {c32, "mzd_pluq(0x300)"}, {c33, "mzd_add(NULL,3x0,3x0)"}, {c34, "mzd_cmp(3x0,3x0)"},
  {c35, "mzd_top_echelonize_m4ri(3x0, 0)"}, {c36, "mzd_trtri_upper(0x0)"}, {c37, "mzd_mul_naive(NULL,3x3,3x0)"}, {c38, "mzd_gauss_delayed(3x0,0,1)"},
};
int main(int argc, char **argv) {
  int n = sizeof(cases) / sizeof(cases[0]);
  if (argc > 1) { int i = atoi(argv[1]) - 1; printf("%s\n", cases[i].what); fflush(stdout); cases[i].f(); printf("returned\n"); return 0; }
  for (int i = 0; i < n; i++) {
    fflush(stdout);
    pid_t p = fork();
    if (p == 0) { int fd = open("/dev/null", 1); dup2(fd, 2); alarm(20); cases[i].f(); _exit(0); }
    int st; waitpid(p, &st, 0);
    printf("case %2d %-75s : ", i + 1, cases[i].what);
    if (WIFEXITED(st)) printf(WEXITSTATUS(st) ? "exit %d (sanitizer)\n" : "ok\n", WEXITSTATUS(st));
    else printf("signal %d (%s)\n", WTERMSIG(st), strsignal(WTERMSIG(st)));
  }
  return 0;
}
