#!/bin/bash
# usage: mkcfg.sh name L1 L2 L3 SSE2 MMC MZDCACHE [extra cflags]
set -e
name=$1; L1=$2; L2=$3; L3=$4; SSE=$5; MMC=$6; MZC=$7; shift 7
D=/tmp/auditA/_audit/$name
rm -rf $D; mkdir -p $D/m4ri $D/obj
cp /tmp/auditA/m4ri/*.c /tmp/auditA/m4ri/*.h $D/m4ri/
sed -i -e "s/^#define __M4RI_CPU_L1_CACHE.*/#define __M4RI_CPU_L1_CACHE $L1/" \
       -e "s/^#define __M4RI_CPU_L2_CACHE.*/#define __M4RI_CPU_L2_CACHE $L2/" \
       -e "s/^#define __M4RI_CPU_L3_CACHE.*/#define __M4RI_CPU_L3_CACHE $L3/" \
       -e "s/^#define __M4RI_HAVE_SSE2.*/#define __M4RI_HAVE_SSE2 $SSE/" \
       -e "s/^#define __M4RI_ENABLE_MMC.*/#define __M4RI_ENABLE_MMC $MMC/" \
       -e "s/^#define __M4RI_ENABLE_MZD_CACHE.*/#define __M4RI_ENABLE_MZD_CACHE $MZC/" $D/m4ri/m4ri_config.h
CF="-O1 -g -fsanitize=address,undefined -fno-sanitize-recover=all -fno-omit-frame-pointer -w -I$D -I$D/m4ri $*"
for f in $D/m4ri/*.c; do
  b=$(basename $f .c)
  gcc $CF -c $f -o $D/obj/$b.o &
done
wait
ar rcs $D/libm4ri.a $D/obj/*.o
echo "$CF" > $D/cflags
grep -E "L[123]_CACHE|HAVE_SSE2|ENABLE_M" $D/m4ri/m4ri_config.h | head -8
