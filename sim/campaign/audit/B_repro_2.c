/* mzd_extract_u(U, A) / mzd_extract_l(L, A) with a supplied destination that is a window */
#include "repro_util.h"
int main(void) {
  int n = 10, bad = 0;
  mzd_t *A = rand_matrix(n, n);
  for (int lower = 0; lower < 2; lower++) {
    mzd_t *P = rand_matrix(n + 2, 64 + n + 70);
    mzd_t *D = mzd_init_window(P, 1, 64, 1 + n, 64 + n);
    word *snap = snapshot(P);
    if (lower) mzd_extract_l(D, A); else mzd_extract_u(D, A);
    int ok = 1;
    for (int i = 0; i < n; i++) for (int j = 0; j < n; j++) {
      int want = (lower ? j <= i : j >= i) ? mzd_read_bit(A, i, j) : 0;
      if (mzd_read_bit(D, i, j) != want) ok = 0;
    }
    long d = outside_diff(P, snap, 1, 64, n, n);
    printf("%s(D %dx%d view at (1,64) of %dx%d, A): content correct=%d, parent bits changed outside the view: %ld\n", lower ? "mzd_extract_l" : "mzd_extract_u", n, n, P->nrows, P->ncols, ok, d);
    bad |= d != 0;
  }
  return bad;
}
