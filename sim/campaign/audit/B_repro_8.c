/* mzd_ple / mzd_pluq / mzd_echelonize_pluq on a LARGE window (nrows * width > __M4RI_PLE_CUTOFF = 524288 words, so that the recursive
   branch of _mzd_ple and _mzd_compress_l work on the caller's matrix): the parent's bits next to the window are zeroed in all rows
   below the rank.  Needs a rank-deficient left half (here: column 5 is zero) so that _mzd_compress_l has work to do. */
#include "repro_util.h"
int main(void) {
  int nrows = 131300, ncols = 200, bad = 0;
  for (int which = 0; which < 3; which++) {
    mzd_t *P = rand_matrix(nrows + 2, ncols + 70);
    mzd_t *V = mzd_init_window(P, 1, 0, 1 + nrows, ncols);
    for (int i = 0; i < nrows; i++) mzd_write_bit(V, i, 5, 0);
    mzd_t *O = mzd_copy(NULL, V);
    word *snap = snapshot(P);
    mzp_t *P0 = mzp_init(nrows), *Q0 = mzp_init(ncols), *P1 = mzp_init(nrows), *Q1 = mzp_init(ncols);
    rci_t r0, r1; char const *nm;
    if (which == 0) { nm = "mzd_ple"; r0 = mzd_ple(O, P0, Q0, 0); r1 = mzd_ple(V, P1, Q1, 0); }
    else if (which == 1) { nm = "mzd_pluq"; r0 = mzd_pluq(O, P0, Q0, 0); r1 = mzd_pluq(V, P1, Q1, 0); }
    else { nm = "mzd_echelonize_pluq(A,1)"; r0 = mzd_echelonize_pluq(O, 1); r1 = mzd_echelonize_pluq(V, 1); }
    long d = outside_diff(P, snap, 1, 0, nrows, ncols);
    printf("%s on a %dx%d view at (1,0) of a %dx%d parent: rank %d (owned %d), result equals owned run: %d, parent bits changed outside the view: %ld\n",
           nm, nrows, ncols, P->nrows, P->ncols, r1, r0, mzd_equal(O, V), d);
    bad |= d != 0;
    mzd_free(O); mzd_free(V); mzd_free(P); free(snap);
  }
  return bad;
}
