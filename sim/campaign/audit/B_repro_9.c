/* djb_compile(A) with A a window: the row ordering compares whole words including the parent's bits, the compiled map is wrong */
#include "repro_util.h"
int main(void) {
  int m = 6, n = 10, c = 5;
  mzd_t *P = rand_matrix(m + 2, n + 70);
  mzd_t *A = mzd_init_window(P, 1, 0, 1 + m, n);
  mzd_t *Acopy = mzd_copy(NULL, A), *Aown = mzd_copy(NULL, A);
  mzd_t *V = rand_matrix(n, c);
  mzd_t *expect = mzd_mul_naive(NULL, Acopy, V);
  djb_t *z1 = djb_compile(A), *z0 = djb_compile(Aown);
  mzd_t *W1 = mzd_init(m, c), *W0 = mzd_init(m, c);
  djb_apply_mzd(z1, W1, V); djb_apply_mzd(z0, W0, V);
  printf("A = 6x10 view of an 8x80 random parent, V 10x5: map compiled from owned copy gives A*V: %d; map compiled from the view gives A*V: %d\n",
         mzd_equal(W0, expect), mzd_equal(W1, expect));
  return !mzd_equal(W1, expect);
}
