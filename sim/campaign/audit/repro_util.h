/* helpers shared by the repro_N.c files */
#ifndef REPRO_UTIL_H
#define REPRO_UTIL_H
#include <m4ri/m4ri.h>
#include <stdio.h>
#include <stdlib.h>
#include <string.h>
#include <stdint.h>
static void __attribute__((constructor)) repro_init_(void) { setvbuf(stdout, NULL, _IOLBF, 0); }
static uint64_t rs_ = 0x1234567ULL;
static inline uint64_t rnd64(void) { uint64_t z = (rs_ += 0x9E3779B97F4A7C15ULL); z = (z ^ (z >> 30)) * 0xBF58476D1CE4E5B9ULL; z = (z ^ (z >> 27)) * 0x94D049BB133111EBULL; return z ^ (z >> 31); }
/* parent matrix filled with random bits (its own excess bits stay zero) */
static mzd_t *rand_matrix(int r, int c) {
  mzd_t *P = mzd_init(r, c);
  for (int i = 0; i < r; i++) { word *row = mzd_row(P, i); for (int j = 0; j < P->width; j++) row[j] = rnd64(); row[P->width - 1] &= P->high_bitmask; }
  return P;
}
static word *snapshot(mzd_t const *P) { size_t n = (size_t)P->nrows * P->rowstride; word *s = malloc(n * sizeof(word) + 8); memcpy(s, P->data, n * sizeof(word)); return s; }
/* number of parent bits OUTSIDE the window [r0,r0+nr) x [c0,c0+nc) that differ from the snapshot; prints the first */
static long outside_diff(mzd_t const *P, word const *snap, int r0, int c0, int nr, int nc) {
  long cnt = 0;
  for (int i = 0; i < P->nrows; i++) for (int j = 0; j < P->ncols; j++) {
    if (i >= r0 && i < r0 + nr && j >= c0 && j < c0 + nc) continue;
    int was = (snap[(size_t)i * P->rowstride + j / 64] >> (j % 64)) & 1, is = mzd_read_bit(P, i, j);
    if (was != is) { if (!cnt) printf("  first changed parent bit outside the view: (%d,%d) was %d is %d\n", i, j, was, is); cnt++; }
  }
  return cnt;
}
static int excess_nonzero(mzd_t const *M) {
  for (int i = 0; i < M->nrows; i++) if (M->ncols && (mzd_row_const(M, i)[M->width - 1] & ~M->high_bitmask)) return 1;
  return 0;
}
#endif
