/* F6: mzd_first_zero_row on a window with fewer than 64 columns looks at the parent's bits */
#include <m4ri/m4ri.h>
int main(void) {
  mzd_t *P = mzd_init(4, 64);
  for (rci_t i = 0; i < 4; i++) for (rci_t j = 10; j < 64; j++) mzd_write_bit(P, i, j, 1);
  mzd_t *W = mzd_init_window(P, 0, 0, 4, 10); /* all zero */
  mzd_t *C = mzd_copy(NULL, W);
  printf("mzd_first_zero_row(window) = %d, mzd_first_zero_row(copy of the window) = %d, mzd_is_zero(window) = %d\n",
         mzd_first_zero_row(W), mzd_first_zero_row(C), mzd_is_zero(W));
  int bad = mzd_first_zero_row(W) != mzd_first_zero_row(C);
  mzd_free(W); mzd_free(C); mzd_free(P);
  return bad;
}
