/* mzd_first_zero_row on a view with at most 64 columns looks at the parent's bits */
#include "repro_util.h"
int main(void) {
  mzd_t *P = rand_matrix(8, 100);
  mzd_t *V = mzd_init_window(P, 0, 0, 8, 7);             /* 8 x 7 view */
  for (int i = 2; i < 8; i++) for (int j = 0; j < 7; j++) mzd_write_bit(V, i, j, 0);  /* rows 2..7 of the view are zero */
  mzd_write_bit(V, 1, 3, 1);
  mzd_t *O = mzd_copy(NULL, V);
  printf("view 8x7 of 8x100 parent, rows 2..7 zero: mzd_first_zero_row(view)=%d, mzd_first_zero_row(owned copy)=%d, mzd_equal=%d\n",
         mzd_first_zero_row(V), mzd_first_zero_row(O), mzd_equal(V, O));
  return mzd_first_zero_row(V) != mzd_first_zero_row(O);
}
