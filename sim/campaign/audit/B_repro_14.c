/* mzd_from_png: 1-bit palette images are documented as supported, but the palette is ignored: the same picture stored with the
   palette {white, black} reads back as the complement of what it gives with palette {black, white} / as a grayscale image */
#include "repro_util.h"
#include <png.h>
static void write_pal(char const *fn, int swapped, unsigned char rowbits) {
  FILE *fh = fopen(fn, "wb");
  png_structp png = png_create_write_struct(PNG_LIBPNG_VER_STRING, NULL, NULL, NULL);
  png_infop info = png_create_info_struct(png);
  if (setjmp(png_jmpbuf(png))) abort();
  png_init_io(png, fh);
  png_set_IHDR(png, info, 8, 1, 1, PNG_COLOR_TYPE_PALETTE, PNG_INTERLACE_NONE, PNG_COMPRESSION_TYPE_DEFAULT, PNG_FILTER_TYPE_DEFAULT);
  png_color pal[2];
  pal[swapped ? 1 : 0] = (png_color){0, 0, 0};
  pal[swapped ? 0 : 1] = (png_color){255, 255, 255};
  png_set_PLTE(png, info, pal, 2);
  png_write_info(png, info);
  unsigned char row = swapped ? rowbits : (unsigned char)~rowbits; /* index of black is 1 if swapped, 0 otherwise */
  png_write_row(png, &row);
  png_write_end(png, info);
  png_destroy_write_struct(&png, &info);
  fclose(fh);
}
int main(void) {
  /* picture: pixels 0,1,2 black, the rest white (mzd_to_png draws a 1 as a black pixel) */
  char const *fn = "/tmp/auditB/_audit/repro_14.png";
  mzd_t *M = mzd_init(1, 8); mzd_write_bit(M, 0, 0, 1); mzd_write_bit(M, 0, 1, 1); mzd_write_bit(M, 0, 2, 1);
  mzd_to_png(M, fn, -1, NULL, 0);
  mzd_t *G = mzd_from_png(fn, 0);
  printf("grayscale written by mzd_to_png       : "); mzd_print(G);
  write_pal(fn, 0, 0xE0); mzd_t *A = mzd_from_png(fn, 0);
  printf("same picture, palette {black, white}  : "); mzd_print(A);
  write_pal(fn, 1, 0xE0); mzd_t *B = mzd_from_png(fn, 0);
  printf("same picture, palette {white, black}  : "); mzd_print(B);
  return mzd_equal(A, B) ? 0 : 1;
}
