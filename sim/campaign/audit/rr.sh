#!/bin/bash
# usage: rr.sh <tree> repro_N.c [extra cflags...] [-- program args]
#   <tree> = /tmp/auditA (unmodified, default config) or /tmp/auditA/_audit/cfg_small etc. (copy of m4ri/ with edited m4ri_config.h)
# compiles the library sources of that tree directly together with the reproducer and runs it with timeout 60
tree=$1; src=$2; shift 2
extra=(); while [ $# -gt 0 ] && [ "$1" != "--" ]; do extra+=("$1"); shift; done; [ "$1" == "--" ] && shift
exe=/tmp/auditA/_audit/bin/$(basename $src .c).$(basename $tree).rr
mkdir -p /tmp/auditA/_audit/bin
gcc -O1 -g -fsanitize=address,undefined -fno-sanitize-recover=all -w "${extra[@]}" -I$tree -I$tree/m4ri $tree/m4ri/*.c /tmp/auditA/_audit/$src -lpng -lm -o $exe || exit 99
timeout 60 $exe "$@"; echo "[exit status $?]"
