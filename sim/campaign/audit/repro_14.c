/* F14 (minor): djb_info computes nrows * ncols in int;  observation: pad check of _mzd_solve_left skips row A->nrows */
#include <m4ri/m4ri.h>
#include <m4ri/djb.h>
int main(int argc, char **argv) {
  if (argc > 1) {
    djb_t *z = djb_init(65536, 32768);
    djb_info(z);
    djb_free(z);
    return 0;
  }
  for (int row = 2; row < 4; row++) {
    mzd_t *A = mzd_init(2, 4), *B = mzd_init(4, 1);
    mzd_write_bit(A, 0, 0, 1); mzd_write_bit(A, 1, 1, 1);
    mzd_write_bit(B, row, 0, 1); /* padding row not zero */
    printf("mzd_solve_left(2x4, B with padding row %d set, check=1) = %d\n", row, mzd_solve_left(A, B, 0, 1));
    mzd_free(A); mzd_free(B);
  }
  return 0;
}
