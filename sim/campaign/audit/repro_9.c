/* F9: __M4RI_MUL_BLOCKSIZE / __M4RI_STRASSEN_MUL_CUTOFF compute 4 * __M4RI_CPU_L3_CACHE in int:
   for L3 >= 512 MiB the block size is <= 0 and the blocked loops never advance (build with the tree cfg_hugeL3) */
#include <m4ri/m4ri.h>
int main(void) {
  printf("L3 = %ld, __M4RI_MUL_BLOCKSIZE = %d, __M4RI_STRASSEN_MUL_CUTOFF = %d\n", (long)__M4RI_CPU_L3_CACHE,
         (int)__M4RI_MUL_BLOCKSIZE, (int)__M4RI_STRASSEN_MUL_CUTOFF);
  fflush(stdout);
  mzd_t *A = mzd_init(100, 100), *B = mzd_init(100, 100);
  mzd_randomize(A); mzd_randomize(B);
  mzd_t *C = mzd_mul_m4rm(NULL, A, B, 0);
  printf("returned\n");
  mzd_free(A); mzd_free(B); mzd_free(C);
  return 0;
}
