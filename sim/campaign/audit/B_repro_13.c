/* mzd_solve_left(A, B, cutoff, inconsistency_check=1) with A->nrows < A->ncols: A is "implicitly padded with zeros to match B->nrows",
   so a non-zero entry of B in a padding row makes the system inconsistent.  The check skips the first padding row (row A->nrows). */
#include "repro_util.h"
int main(void) {
  int rv[4];
  for (int badrow = 1; badrow < 4; badrow++) {
    mzd_t *A = mzd_init(1, 4); mzd_write_bit(A, 0, 0, 1);
    mzd_t *B = mzd_init(4, 1); mzd_write_bit(B, badrow, 0, 1);
    rv[badrow] = mzd_solve_left(A, B, 0, 1);
    printf("A = [1 0 0 0] (1x4), B (4x1) = e_%d: mzd_solve_left(A, B, 0, 1) returned %d (%s)\n", badrow, rv[badrow], rv[badrow] ? "no solution" : "solution found");
  }
  return rv[1] == 0;
}
