/* mzd_submatrix(S, M, ...) with a word-aligned start column and S a window: the bits of S's parent
   next to the window (same word as S's last columns) are overwritten with zeros. */
#include "repro_util.h"
int main(void) {
  mzd_t *M = rand_matrix(4, 200);
  mzd_t *P = rand_matrix(6, 64 + 9 + 70);               /* parent of the destination */
  mzd_t *S = mzd_init_window(P, 1, 64, 1 + 3, 64 + 9);  /* 3 x 9 view at row 1, column 64 */
  word *snap = snapshot(P);
  mzd_submatrix(S, M, 0, 128, 3, 137);                  /* rows 0..2, columns 128..136 of M */
  int ok = 1;
  for (int i = 0; i < 3; i++) for (int j = 0; j < 9; j++) if (mzd_read_bit(S, i, j) != mzd_read_bit(M, i, 128 + j)) ok = 0;
  long d = outside_diff(P, snap, 1, 64, 3, 9);
  printf("mzd_submatrix(S 3x9 view, M 4x200, 0,128,3,137): content correct=%d, parent bits changed outside the view: %ld\n", ok, d);
  /* unaligned start column: fine */
  memcpy(P->data, snap, (size_t)P->nrows * P->rowstride * sizeof(word));
  mzd_submatrix(S, M, 0, 127, 3, 136);
  printf("same with start column 127 (not a multiple of 64): parent bits changed: %ld\n", outside_diff(P, snap, 1, 64, 3, 9));
  return d != 0;
}
