/* F12: djb_compile on a window: mzd_compare_rows_revlex compares whole words including the parent's bits */
#include <m4ri/m4ri.h>
#include <m4ri/djb.h>
int main(void) {
  srandom(1);
  mzd_t *P = mzd_init(8, 128);
  mzd_randomize(P);
  mzd_t *W  = mzd_init_window(P, 0, 0, 8, 70);
  mzd_t *A  = mzd_copy(NULL, W);      /* the 8 x 70 matrix */
  mzd_t *V  = mzd_init(70, 65);
  mzd_randomize(V);
  mzd_t *R  = mzd_mul_naive(NULL, A, V);
  djb_t *z1 = djb_compile(W);         /* compile from the window (destroys it) */
  mzd_t *A2 = mzd_copy(NULL, A);
  djb_t *z2 = djb_compile(A2);        /* compile from a plain copy */
  mzd_t *X1 = mzd_init(8, 65), *X2 = mzd_init(8, 65);
  djb_apply_mzd(z1, X1, V);
  djb_apply_mzd(z2, X2, V);
  printf("program from plain copy correct: %d; program from window correct: %d\n", mzd_equal(X2, R), mzd_equal(X1, R));
  int bad = !mzd_equal(X1, R);
  djb_free(z1); djb_free(z2);
  mzd_free(W); mzd_free(P); mzd_free(A); mzd_free(A2); mzd_free(V); mzd_free(R); mzd_free(X1); mzd_free(X2);
  return bad;
}
