/* matrices with a zero dimension (mzd_init supports them: data == NULL).  Every call runs in a forked child. */
#include "repro_util.h"
#include <unistd.h>
#include <sys/wait.h>
#define RUN(desc, ...) do { fflush(stdout); pid_t p_ = fork(); if (p_ == 0) { int fd_ = dup(1); (void)fd_; __VA_ARGS__; _exit(0); } int st_; waitpid(p_, &st_, 0); \
  if (WIFSIGNALED(st_)) { printf("  => %s: killed by signal %d%s\n", desc, WTERMSIG(st_), WTERMSIG(st_) == SIGABRT ? " (abort)" : ""); nbad++; } \
  else if (WEXITSTATUS(st_)) { printf("  => %s: sanitizer report / exit status %d\n", desc, WEXITSTATUS(st_)); nbad++; } else printf("ok: %s\n", desc); } while (0)
int main(void) {
  int nbad = 0;
  /* (a) mzd_transpose of an empty matrix dies in mzd_copy ("Target matrix is too small") */
  RUN("mzd_transpose(NULL, A 0x4)", { mzd_t *A = mzd_init(0, 4); mzd_transpose(NULL, A); });
  RUN("mzd_transpose(NULL, A 4x0)", { mzd_t *A = mzd_init(4, 0); mzd_transpose(NULL, A); });
  /* ... and so do the products that transpose B (B->ncols < 54) */
  RUN("mzd_mul(NULL, A 3x0, B 0x5, 0)", { mzd_t *A = mzd_init(3, 0), *B = mzd_init(0, 5); mzd_mul(NULL, A, B, 0); });
  RUN("mzd_mul_naive(NULL, A 3x0, B 0x5)", { mzd_t *A = mzd_init(3, 0), *B = mzd_init(0, 5); mzd_mul_naive(NULL, A, B); });
  RUN("mzd_mul_m4rm(NULL, A 4x4, B 4x0, 0)", { mzd_t *A = mzd_init(4, 4), *B = mzd_init(4, 0); mzd_mul_m4rm(NULL, A, B, 0); });
  RUN("mzd_mul(NULL, A 30x0, B 0x100, 0) [B wide: fine]", { mzd_t *A = mzd_init(30, 0), *B = mzd_init(0, 100); mzd_mul(NULL, A, B, 0); });
  /* (b) heap write before the buffer */
  RUN("mzd_concat(NULL, A 4x0, B 4x5)", { mzd_t *A = mzd_init(4, 0), *B = mzd_init(4, 5); mzd_concat(NULL, A, B); });
  /* (c) r x 0 matrices: row[width - 1] on a NULL data pointer, division by the width */
  RUN("mzd_copy(NULL, A 4x0)", { mzd_t *A = mzd_init(4, 0); mzd_copy(NULL, A); });
  RUN("mzd_equal(A 4x0, B 4x0)", { mzd_t *A = mzd_init(4, 0), *B = mzd_init(4, 0); mzd_equal(A, B); });
  RUN("mzd_cmp(A 4x0, B 4x0)", { mzd_t *A = mzd_init(4, 0), *B = mzd_init(4, 0); mzd_cmp(A, B); });
  RUN("mzd_is_zero(A 4x0)", { mzd_t *A = mzd_init(4, 0); mzd_is_zero(A); });
  RUN("mzd_set_ui(A 4x0, 1)", { mzd_t *A = mzd_init(4, 0); mzd_set_ui(A, 1); });
  RUN("mzd_first_zero_row(A 4x0)", { mzd_t *A = mzd_init(4, 0); mzd_first_zero_row(A); });
  RUN("mzd_density(A 4x0, 1)", { mzd_t *A = mzd_init(4, 0); mzd_density(A, 1); });
  RUN("mzd_randomize(A 4x0)", { mzd_t *A = mzd_init(4, 0); mzd_randomize(A); });
  RUN("mzd_stack(NULL, A 4x0, B 3x0)", { mzd_t *A = mzd_init(4, 0), *B = mzd_init(3, 0); mzd_stack(NULL, A, B); });
  RUN("mzd_submatrix(NULL, M 4x70, 0, 5, 3, 5) [empty column range, start column not a multiple of 64]", { mzd_t *A = mzd_init(4, 70); mzd_submatrix(NULL, A, 0, 5, 3, 5); });
  RUN("mzd_fprint(f, A 5x0)", { mzd_t *A = mzd_init(5, 0); FILE *f = fopen("/dev/null", "w"); mzd_fprint(f, A); });
  RUN("mzd_ple(A 5x0, P, Q, 0)", { mzd_t *A = mzd_init(5, 0); mzp_t *P = mzp_init(5), *Q = mzp_init(0); mzd_ple(A, P, Q, 0); });
  RUN("mzd_pluq(A 5x0, P, Q, 0)", { mzd_t *A = mzd_init(5, 0); mzp_t *P = mzp_init(5), *Q = mzp_init(0); mzd_pluq(A, P, Q, 0); });
  RUN("_mzd_ple_russian(A 5x0, P, Q, 0)", { mzd_t *A = mzd_init(5, 0); mzp_t *P = mzp_init(5), *Q = mzp_init(0); _mzd_ple_russian(A, P, Q, 0); });
  RUN("mzd_echelonize_pluq(A 5x0, 1)", { mzd_t *A = mzd_init(5, 0); mzd_echelonize_pluq(A, 1); });
  RUN("mzd_kernel_left_pluq(A 5x0, 0)", { mzd_t *A = mzd_init(5, 0); mzd_kernel_left_pluq(A, 0); });
  RUN("mzd_apply_p_right(A 5x0, Q)", { mzd_t *A = mzd_init(5, 0); mzp_t *Q = mzp_init(0); mzd_apply_p_right(A, Q); });
  RUN("mzd_apply_p_right_trans_tri(A 5x0, Q)", { mzd_t *A = mzd_init(5, 0); mzp_t *Q = mzp_init(0); mzd_apply_p_right_trans_tri(A, Q); });
  RUN("mzd_trsm_lower_left(L 100x100 identity, B 100x0, 0)", { mzd_t *L = mzd_init(100, 100), *B = mzd_init(100, 0); mzd_set_ui(L, 1); mzd_trsm_lower_left(L, B, 0); });
  RUN("mzd_trsm_upper_left(U 100x100 identity, B 100x0, 0)", { mzd_t *U = mzd_init(100, 100), *B = mzd_init(100, 0); mzd_set_ui(U, 1); mzd_trsm_upper_left(U, B, 0); });
  RUN("djb_compile(A 0x5)", { mzd_t *A = mzd_init(0, 5); djb_compile(A); });
  printf("%d calls failed\n", nbad);
  return nbad != 0;
}
