/* F4: mzd_echelonize_m4ri(W, full = 0, k) / mzd_echelonize(W, 0) on a window W clears the bits of the parent
   that share the last word of W's rows (_mzd_copy_back_rows copies whole words) */
#include <m4ri/m4ri.h>
int main(void) {
  srandom(1);
  mzd_t *P = mzd_init(4, 128);
  mzd_randomize(P);
  mzd_t *P0 = mzd_copy(NULL, P);
  mzd_t *W  = mzd_init_window(P, 0, 0, 4, 70); /* columns 0..69 */
  mzd_echelonize_m4ri(W, 0, 0);
  int changed = 0;
  for (rci_t i = 0; i < 4; i++)
    for (rci_t j = 70; j < 128; j++) changed += mzd_read_bit(P, i, j) != mzd_read_bit(P0, i, j);
  printf("bits of the parent outside the window (columns 70..127) changed: %d\n", changed);
  mzd_free(W); mzd_free(P); mzd_free(P0);
  return changed != 0;
}
