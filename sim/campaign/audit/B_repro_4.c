/* mzd_density(A, 1) ("res = 1 uses every word") ignores the last word of each row when ncols is a multiple of 64 (and > 64) */
#include "repro_util.h"
int main(void) {
  mzd_t *A = mzd_init(1, 128);
  mzd_write_bit(A, 0, 100, 1);
  double d1 = mzd_density(A, 1);
  printf("1x128, only bit (0,100) set: mzd_density(A,1) = %g (exact 1/128 = %g)\n", d1, 1.0 / 128);
  mzd_write_bit(A, 0, 3, 1);
  double d2 = mzd_density(A, 1);
  printf("1x128, bits (0,3),(0,100) set: mzd_density(A,1) = %g (exact 2/128 = %g)\n", d2, 2.0 / 128);
  mzd_t *B = mzd_init(1, 127); mzd_write_bit(B, 0, 100, 1);
  printf("1x127, only bit (0,100) set: mzd_density(B,1) = %g (exact %g)\n", mzd_density(B, 1), 1.0 / 127);
  return d1 != 1.0 / 128;
}
