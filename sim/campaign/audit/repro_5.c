/* F5: mzd_ple / mzd_pluq / mzd_echelonize_pluq on a window: _mzd_compress_l writes whole words and clears parent bits.
   Needs the recursive branch of _mzd_ple: A->width * A->nrows > __M4RI_PLE_CUTOFF = MIN(524288, L3/8).
   argv[1] = number of rows (default 5000: enough for L3 = 64 KiB; 270000 for the default configuration) */
#include <m4ri/m4ri.h>
#include <stdlib.h>
int main(int argc, char **argv) {
  rci_t m = argc > 1 ? atoi(argv[1]) : 5000;
  srandom(1);
  mzd_t *P = mzd_init(m, 128);
  mzd_randomize(P);
  for (rci_t i = 0; i < m; i++) mzd_row(P, i)[0] &= 0xFFFFFFFF00000000ULL; /* columns 0..31 zero: rank of the first block < 64 */
  mzd_t *P0 = mzd_copy(NULL, P);
  mzd_t *W  = mzd_init_window(P, 0, 0, m, 74); /* columns 0..73 */
  mzp_t *p = mzp_init(m), *q = mzp_init(74);
  rci_t r = mzd_ple(W, p, q, 0);
  long changed = 0;
  for (rci_t i = 0; i < m; i++)
    for (rci_t j = 74; j < 128; j++) changed += mzd_read_bit(P, i, j) != mzd_read_bit(P0, i, j);
  printf("PLE_CUTOFF %d, rank %d: bits of the parent outside the window (columns 74..127) changed: %ld\n", (int)__M4RI_PLE_CUTOFF, r, changed);
  mzp_free(p); mzp_free(q); mzd_free(W); mzd_free(P); mzd_free(P0);
  return changed != 0;
}
