/* F13: mzd_density / _mzd_density never look at the last word when ncols is a multiple of 64; 0/0 for r == nrows */
#include <m4ri/m4ri.h>
int main(void) {
  mzd_t *A = mzd_init(1, 128);
  for (int j = 64; j < 128; j++) mzd_write_bit(A, 0, j, 1);
  printf("mzd_density(1 x 128 with ones in columns 64..127, res = 1) = %g, exact 0.5\n", mzd_density(A, 1));
  printf("_mzd_density(A, 1, r = 1 = nrows, 0) = %g\n", _mzd_density(A, 1, 1, 0));
  mzd_free(A);
  return 0;
}
