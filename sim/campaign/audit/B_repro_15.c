/* mzd_submatrix(S, ...) accepts a destination that is larger than the block (it only dies if S is smaller), but then clears
   columns of S beyond the block: up to the end of the word (aligned start column) or S->high_bitmask-many (unaligned) */
#include "repro_util.h"
int main(void) {
  mzd_t *M = mzd_init(2, 200);
  for (int j = 0; j < 200; j++) mzd_write_bit(M, 0, j, 1);
  for (int lc = 0; lc < 4; lc += 3) {
    mzd_t *S = mzd_init(2, 100);
    for (int i = 0; i < 2; i++) for (int j = 0; j < 100; j++) mzd_write_bit(S, i, j, 1);
    mzd_submatrix(S, M, 0, lc, 1, lc + 10);
    printf("S 2x100 all ones; mzd_submatrix(S, M, 0,%d,1,%d); S row 0 = ", lc, lc + 10);
    for (int j = 0; j < 100; j++) printf("%d", mzd_read_bit(S, 0, j));
    printf("\n");
  }
  return 1;
}
