/* F7: mzd_row_clear_offset keeps the wrong part of the first word and clears the parent bits of a window */
#include <m4ri/m4ri.h>
int main(void) {
  mzd_t *M = mzd_init(1, 128);
  for (int j = 0; j < 128; j++) mzd_write_bit(M, 0, j, 1);
  mzd_row_clear_offset(M, 0, 70); /* documented: clear the row beginning at column 70 */
  printf("after mzd_row_clear_offset(M,0,70): ");
  for (int j = 0; j < 128; j++) putchar('0' + mzd_read_bit(M, 0, j));
  printf("\nexpected                          : ");
  for (int j = 0; j < 128; j++) putchar(j < 70 ? '1' : '0');
  printf("\n");
  /* window: the bits of the parent to the right of the window are cleared as well */
  mzd_t *P = mzd_init(1, 128);
  for (int j = 0; j < 128; j++) mzd_write_bit(P, 0, j, 1);
  mzd_t *W = mzd_init_window(P, 0, 0, 1, 100);
  mzd_row_clear_offset(W, 0, 64);
  printf("parent after clearing window(0..99) from column 64: ");
  for (int j = 0; j < 128; j++) putchar('0' + mzd_read_bit(P, 0, j));
  printf("\n");
  return 0;
}
