/* F8: assert(maxsize >= 64) in _mzd_transpose_notsmall fails for e.g. 1030 x 4 (only when assertions are compiled in,
   i.e. --enable-debug or a build without -DHAVE_CONFIG_H; with NDEBUG the result is correct).
   argv[1] = 0: mzd_transpose, 1: mzd_mul_m4rm (B is 1030 x 4, goes through mzd_mul_naive -> mzd_transpose) */
#include <m4ri/m4ri.h>
#include <stdlib.h>
int main(int argc, char **argv) {
  int which = argc > 1 ? atoi(argv[1]) : 0;
  mzd_t *B = mzd_init(1030, 4);
  mzd_randomize(B);
  if (which == 0) {
    mzd_t *T = mzd_transpose(NULL, B);
    int ok = 1;
    for (rci_t i = 0; i < 1030; i++) for (rci_t j = 0; j < 4; j++) ok &= mzd_read_bit(B, i, j) == mzd_read_bit(T, j, i);
    printf("mzd_transpose(1030 x 4) correct: %d\n", ok);
    mzd_free(T);
  } else {
    mzd_t *A = mzd_init(20, 1030);
    mzd_randomize(A);
    mzd_t *C = mzd_mul_m4rm(NULL, A, B, 0);
    printf("mzd_mul_m4rm(20 x 1030, 1030 x 4) returned\n");
    mzd_free(A); mzd_free(C);
  }
  mzd_free(B);
  return 0;
}
