/* F2: mzd_trtri_upper: U->nrows * U->ncols is computed in int */
#include <m4ri/m4ri.h>
int main(void) {
  rci_t n = 46341; /* 46341^2 > INT_MAX; the identity matrix is a valid upper triangular matrix (268 MB) */
  mzd_t *U = mzd_init(n, n);
  for (rci_t i = 0; i < n; i++) mzd_write_bit(U, i, i, 1);
  mzd_trtri_upper(U);
  printf("returned\n");
  mzd_free(U);
  return 0;
}
