/* mzd_from_jcf: (a) anything that is not a number ends the entry list silently and the partial matrix is returned as a success;
   (b) the entry -9223372036854775808 (or any more negative number, glibc clamps) makes "j = -j" overflow (UBSan) */
#include "repro_util.h"
static void put(char const *fn, char const *txt) { FILE *f = fopen(fn, "w"); fputs(txt, f); fclose(f); }
int main(int argc, char **argv) {
  char const *fn = "/tmp/auditB/_audit/repro_12.jcf";
  put(fn, "3 2 2\n3\n\n-2\nxyz\n-1\n-2\n");
  mzd_t *A = mzd_from_jcf(fn, 1);
  printf("(a) file with 'xyz' between the entries: returned %s", A ? "a matrix:\n" : "NULL\n");
  if (A) mzd_print(A);
  put(fn, "3 2 2\n3\n\n-1.5\n-2\n");
  mzd_t *B = mzd_from_jcf(fn, 1);
  printf("    file with entry '-1.5': returned %s", B ? "a matrix:\n" : "NULL\n");
  if (B) mzd_print(B);
  if (argc > 1) {
    put(fn, "3 2 2\n3\n\n-9223372036854775808\n");
    printf("(b) entry LONG_MIN:\n");
    mzd_from_jcf(fn, 1);
  }
  return A != NULL;
}
