/* djb_apply_mzd(z, W, V): (a) documented as "W = m*V ... write the result in W", but the previous content of W is used;
   (b) with W a window, the parent's bits next to W are changed */
#include "repro_util.h"
int main(void) {
  int m = 20, n = 77, c = 14, bad = 0;
  mzd_t *A = rand_matrix(m, n), *Acopy = mzd_copy(NULL, A), *V = rand_matrix(n, c);
  mzd_t *expect = mzd_mul_naive(NULL, A, V);
  djb_t *z = djb_compile(Acopy);
  mzd_t *W = rand_matrix(m, c);                       /* destination with previous content */
  mzd_t *W_before = mzd_copy(NULL, W);
  djb_apply_mzd(z, W, V);
  mzd_t *sum = mzd_add(NULL, W_before, expect);
  printf("(a) W had previous content: W == A*V: %d, W == W_before + A*V: %d\n", mzd_equal(W, expect), mzd_equal(W, sum));
  bad |= !mzd_equal(W, expect);
  mzd_t *P = rand_matrix(m + 2, 64 + c + 70);
  mzd_t *Wv = mzd_init_window(P, 1, 64, 1 + m, 64 + c);
  mzd_set_ui(Wv, 0);
  word *snap = snapshot(P);
  djb_apply_mzd(z, Wv, V);
  long d = outside_diff(P, snap, 1, 64, m, c);
  printf("(b) W = zeroed 20x14 view at (1,64) of a 22x148 parent: W == A*V: %d, parent bits changed outside the view: %ld\n", mzd_equal(Wv, expect), d);
  bad |= d != 0;
  return bad;
}
