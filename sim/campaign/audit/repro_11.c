/* F11: mzd_pluq (recursive _mzd_ple) leaves stale entries in Q beyond the rank: output differs from the base case, hence between cache configurations. usage: repro_11 1087 1023 */
#include "h.h"
int main(int argc, char **argv) {
  rci_t m = atoi(argv[1]), n = atoi(argv[2]);
  /* matrix: random, every third row duplicated, columns 0..31 zero */
  mzd_t *A = mk(m, n, 0);
  for (rci_t i = 0; i + 1 < m; i += 3) mzd_copy_row(A, i + 1, A, i);
  if (n > 70) for (rci_t i = 0; i < m; i++) mzd_row(A, i)[0] &= 0xFFFFFFFF00000000ULL;
  mzd_t *X = mzd_copy(NULL, A), *Y = mzd_copy(NULL, A);
  mzp_t *P1 = mzp_init(m), *Q1 = mzp_init(n), *P2 = mzp_init(m), *Q2 = mzp_init(n);
  rci_t r1 = mzd_pluq(X, P1, Q1, 0), r2 = _mzd_pluq_russian(Y, P2, Q2, 0);
  printf("%d x %d: rank %d / %d, hash(mzd_pluq)=%016lx hash(_mzd_pluq_russian)=%016lx\n", m, n, r1, r2, hsh(X), hsh(Y));
  int dp = 0, dq = 0, fp = -1, fq = -1;
  for (rci_t i = 0; i < m; i++) if (P1->values[i] != P2->values[i]) { if (!dp) fp = i; dp++; }
  for (rci_t i = 0; i < n; i++) if (Q1->values[i] != Q2->values[i]) { if (!dq) fq = i; dq++; }
  printf("P differs in %d places (first %d), Q differs in %d places (first %d)\n", dp, fp, dq, fq);
  int dl = 0, du = 0, dz = 0; rci_t fi = -1, fj = -1;
  for (rci_t i = 0; i < m; i++) for (rci_t j = 0; j < n; j++) if (mzd_read_bit(X, i, j) != mzd_read_bit(Y, i, j)) {
    if (fi < 0) { fi = i; fj = j; }
    if (j < i && j < r1) dl++; else if (i < r1) du++; else dz++; }
  printf("matrix differs: L part %d, U part %d, rest %d (first at %d,%d)\n", dl, du, dz, fi, fj);
  mzp_free(P1); mzp_free(P2); mzp_free(Q1); mzp_free(Q2); mzd_free(A); mzd_free(X); mzd_free(Y);
  return 0;
}
