/* mzd_echelonize_m4ri(A, full=0, k) (and mzd_echelonize(A, 0)) on a window overwrite the parent's bits next to the window */
#include "repro_util.h"
int main(void) {
  int bad = 0;
  for (int which = 0; which < 3; which++) {
    rs_ = 42;
    mzd_t *P = rand_matrix(12, 64 + 100 + 70);
    mzd_t *V = mzd_init_window(P, 1, 64, 11, 64 + 100);   /* 10 x 100 view */
    if (which == 1) /* sparse content, so that the density heuristic of mzd_echelonize stays with M4RI */
      for (int i = 0; i < 10; i++) for (int j = 0; j < 100; j++) if (rnd64() % 16) mzd_write_bit(V, i, j, 0);
    mzd_t *O = mzd_copy(NULL, V);
    word *snap = snapshot(P);
    rci_t r0, r1; char const *nm;
    if (which == 0) { nm = "mzd_echelonize_m4ri(A,0,0)"; r0 = mzd_echelonize_m4ri(O, 0, 0); r1 = mzd_echelonize_m4ri(V, 0, 0); }
    else if (which == 1) { nm = "mzd_echelonize(A,0) [sparse A]"; r0 = mzd_echelonize(O, 0); r1 = mzd_echelonize(V, 0); }
    else { nm = "mzd_echelonize_m4ri(A,1,0)"; r0 = mzd_echelonize_m4ri(O, 1, 0); r1 = mzd_echelonize_m4ri(V, 1, 0); }
    long d = outside_diff(P, snap, 1, 64, 10, 100);
    printf("%s on a 10x100 view at (1,64) of a 12x234 parent: rank %d (owned copy %d), result equal to owned run: %d, parent bits changed outside the view: %ld\n", nm, r1, r0, mzd_equal(O, V), d);
    if (which < 2) bad |= d != 0;
  }
  return bad;
}
