/* mzd_row_add(M, r, r) / mzd_row_add_offset(M, r, r, c) on a window: row + row = 0 inside the window, but the parent's bits
   in the last word of that row are zeroed as well */
#include "repro_util.h"
int main(void) {
  mzd_t *P = rand_matrix(5, 64 + 70 + 64);
  mzd_t *V = mzd_init_window(P, 1, 64, 4, 64 + 70);      /* 3 x 70 view */
  word *snap = snapshot(P);
  mzd_row_add(V, 1, 1);
  int zero = 1; for (int j = 0; j < 70; j++) if (mzd_read_bit(V, 1, j)) zero = 0;
  long d = outside_diff(P, snap, 1, 64, 3, 70);
  printf("mzd_row_add(V 3x70 view, 1, 1): row 1 of view zero=%d, parent bits changed outside the view: %ld\n", zero, d);
  return d != 0;
}
