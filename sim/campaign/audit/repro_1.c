/* F1: _mzd_mul_m4rm, automatic k: shift by a negative count when B is wide compared with the L2 cache.
   argv[1] = number of columns of B (default 65536: enough for L2 = 32 KiB; use 2621440 for L2 = 1310720) */
#include <m4ri/m4ri.h>
#include <stdlib.h>
int main(int argc, char **argv) {
  rci_t nc = argc > 1 ? atoi(argv[1]) : 65536;
  mzd_t *A = mzd_init(16, 16), *B = mzd_init(16, nc);
  mzd_randomize(A);
  mzd_randomize(B);
  mzd_t *C = mzd_mul_m4rm(NULL, A, B, 0); /* also reached from mzd_mul / mzd_addmul / trsm / ple */
  mzd_t *D = mzd_mul_naive(NULL, A, B);
  printf("B has %d columns (width %d words), L2 = %d: result equal to naive product: %d\n", nc, (int)B->width,
         (int)__M4RI_CPU_L2_CACHE, mzd_equal(C, D));
  mzd_free(A); mzd_free(B); mzd_free(C); mzd_free(D);
  return 0;
}
