/* F3: explicit table parameter k beyond what the implementation supports is neither rejected nor clamped.
   argv[1]: 0 mzd_echelonize_m4ri(full) 1 mzd_top_echelonize_m4ri 2 _mzd_pluq_russian 3 _mzd_trsm_lower_left_russian; argv[2]: k */
#include <m4ri/m4ri.h>
#include <stdlib.h>
int main(int argc, char **argv) {
  int which = argc > 1 ? atoi(argv[1]) : 0, k = argc > 2 ? atoi(argv[2]) : 11;
  rci_t n = 300;
  srandom(1);
  mzd_t *A = mzd_init(n, n);
  mzd_randomize(A);
  mzd_t *R = mzd_copy(NULL, A);
  rci_t rank = mzd_echelonize_naive(R, 1);
  if (which == 0) {
    rci_t r = mzd_echelonize_m4ri(A, 1, k);
    printf("mzd_echelonize_m4ri(A,1,%d): rank %d (naive %d), RREF equal to naive: %d\n", k, r, rank, mzd_equal(A, R));
  } else if (which == 1) {
    mzd_echelonize_m4ri(A, 0, 0);
    mzd_top_echelonize_m4ri(A, k);
    printf("mzd_top_echelonize_m4ri(A,%d): RREF equal to naive: %d\n", k, mzd_equal(A, R));
  } else if (which == 2) {
    mzd_t *A2 = mzd_copy(NULL, A);
    mzp_t *P = mzp_init(n), *Q = mzp_init(n), *P2 = mzp_init(n), *Q2 = mzp_init(n);
    rci_t r = _mzd_pluq_russian(A, P, Q, k), r2 = _mzd_pluq_russian(A2, P2, Q2, 0);
    printf("_mzd_pluq_russian(k=%d): rank %d, with k=0: %d, same matrix: %d\n", k, r, r2, mzd_equal(A, A2));
    mzp_free(P); mzp_free(Q); mzp_free(P2); mzp_free(Q2); mzd_free(A2);
  } else {
    mzd_t *L = mzd_init(n, n), *B = mzd_init(n, 100);
    mzd_randomize(L); mzd_randomize(B);
    for (rci_t i = 0; i < n; i++) { mzd_write_bit(L, i, i, 1); for (rci_t j = i + 1; j < n; j++) mzd_write_bit(L, i, j, 0); }
    mzd_t *X = mzd_copy(NULL, B);
    _mzd_trsm_lower_left_russian(L, X, k);
    mzd_t *LX = mzd_mul_naive(NULL, L, X);
    printf("_mzd_trsm_lower_left_russian(k=%d): L*X == B: %d\n", k, mzd_equal(LX, B));
    mzd_free(L); mzd_free(B); mzd_free(X); mzd_free(LX);
  }
  mzd_free(A); mzd_free(R);
  return 0;
}
