/* _mzd_ple_russian / _mzd_pluq_russian (declared and documented in ple_russian.h) on a window that is more than 8 words wide */
#include "repro_util.h"
int main(void) {
  int bad = 0;
  for (int which = 0; which < 2; which++) {
    rs_ = 7;
    int r = 30, c = 600;
    mzd_t *P = rand_matrix(r + 2, 64 + c + 70);
    mzd_t *V = mzd_init_window(P, 1, 64, 1 + r, 64 + c);
    mzd_t *O = mzd_copy(NULL, V);
    word *snap = snapshot(P);
    mzp_t *P0 = mzp_init(r), *Q0 = mzp_init(c), *P1 = mzp_init(r), *Q1 = mzp_init(c);
    rci_t r0 = which ? _mzd_pluq_russian(O, P0, Q0, 0) : _mzd_ple_russian(O, P0, Q0, 0);
    rci_t r1 = which ? _mzd_pluq_russian(V, P1, Q1, 0) : _mzd_ple_russian(V, P1, Q1, 0);
    long d = outside_diff(P, snap, 1, 64, r, c);
    printf("%s on a %dx%d view at (1,64) of a %dx%d parent: rank %d (owned %d), result equals owned run: %d, parent bits changed outside the view: %ld\n",
           which ? "_mzd_pluq_russian" : "_mzd_ple_russian", r, c, P->nrows, P->ncols, r1, r0, mzd_equal(O, V), d);
    bad |= d != 0;
  }
  return bad;
}
