#!/usr/bin/env python3
"""Regenerates /verif/SENSITIVITY.md from campaign logs (output of sim/sensitivity.py, one or more files given as arguments;
later files override earlier ones per mutant) and from seeded/*/meta.json."""
import re, json, glob, os, sys

VERIF = os.path.dirname(os.path.dirname(os.path.abspath(__file__)))


def parse(path):
    rows = {}
    for l in open(path):
        m = re.match(r'^(C\d\d_\S+)\s+(\S+)\s+expect=(\S+)\s+(OK|BAD)\s+([\d.]+)s\s*(.*)$', l)
        if m:
            rows[m.group(1)] = m.groups()
    return rows


def main():
    rows = {}
    args = sys.argv[1:]
    extra = []          # --extra LABEL=logfile : the same campaign under another VERIF_SEED (only counted)
    while "--extra" in args:
        i = args.index("--extra"); extra.append(args[i + 1]); del args[i:i + 2]
    neutral = None      # --neutral logfile : output of sim/neutralrun.py
    if "--neutral" in args:
        i = args.index("--neutral"); neutral = args[i + 1]; del args[i:i + 2]
    seedlogs = []       # --seeds LABEL=logfile : output of sim/seedrun.py under a given VERIF_SEED
    while "--seeds" in args:
        i = args.index("--seeds"); seedlogs.append(args[i + 1]); del args[i:i + 2]
    for path in args:
        for l in open(path):
            m = re.match(r'^(C\d\d_\S+)\s+(\S+)\s+expect=(\S+)\s+(OK|BAD)\s+([\d.]+)s\s*(.*)$', l)
            if m:
                rows[m.group(1)] = m.groups()
    desc = {}
    for f in glob.glob(os.path.join(VERIF, 'sim/mutants/*.diff')):
        n = os.path.basename(f)[:-5]
        desc[n] = ", ".join(sorted(set(re.findall(r'^\+\+\+ b/(\S+)', open(f).read(), re.M))))
    out = ["# Sensitivity: can each check fail, and does it stay quiet when nothing is broken?\n",
           "Measured with `python3 sim/sensitivity.py Cxx` (quick tier, default seed): every patch in `sim/mutants/` is applied to a scratch",
           "worktree of /repo (`M4SIM_REPO`), the check of its property runs against it, the worktree is removed. `caught` = the check printed",
           "`VIOLATION property=Cxx` and its minimised replay reproduced in a fresh process; `silent` = exit 0. Mutants named `_r*` are reverts",
           "of `fix:` commits (the defects were real); mutants named `neutral` (and those that turned out equivalent, see DESIGN.md",
           "section 10, items 15 and 21) do not break the property and must leave the check silent.\n",
           "| mutant | files | expected | quick tier | time | first signature |", "|---|---|---|---|---|---|"]
    for n in sorted(rows):
        _, outc, exp, ok, t, sig = rows[n]
        res = "silent" if outc == "missed" else outc
        out.append("| %s | %s | %s | %s%s | %ss | %s |" % (n, desc.get(n, ""), "silent" if exp == "silent" else "caught", res, "" if ok == "OK" else " **BAD**", t,
                                                          (sig.split(",")[0] if sig else "").replace("|", "/")[:90]))
    nc = sum(1 for r in rows.values() if r[2] == "caught" and r[1].startswith("caught")); ne = sum(1 for r in rows.values() if r[2] == "caught")
    ns = sum(1 for r in rows.values() if r[2] == "silent" and r[1] == "missed"); nes = sum(1 for r in rows.values() if r[2] == "silent")
    out.append("\n%d of %d property-breaking mutants caught by the quick tier; %d of %d neutral/equivalent mutants leave the check silent.\n" % (nc, ne, ns, nes))
    for e in extra:
        label, path = e.rsplit("=", 1)
        r2 = parse(path)
        c2 = sum(1 for r in r2.values() if r[2] == "caught" and r[1].startswith("caught")); e2 = sum(1 for r in r2.values() if r[2] == "caught")
        s2 = sum(1 for r in r2.values() if r[2] == "silent" and r[1] == "missed"); es2 = sum(1 for r in r2.values() if r[2] == "silent")
        bad = [n for n, r in sorted(r2.items()) if r[3] != "OK"]
        out.append("Same campaign with %s: %d of %d caught, %d of %d silent%s.\n" % (label, c2, e2, s2, es2, (" - not as expected: " + ", ".join(bad)) if bad else ""))
    out.append("History of misses (each led to a stronger generator or workload, never to a looser oracle): `C12_m3` needed the recursive PLE regime in the quick tier")
    out.append("(dimensions steered above the smallest L3/8); `C10_m1` needed more than 512 columns (wide rank-deficient shapes added); `C11_r2` needed the")
    out.append("write-fault plane of the `fs` engine inside `./check C11`; `C10_m2` and `C11_r1` were first reported under the neighbouring property")
    out.append("(attribution refined: a leak or crash inside the *history prefix* is C11's, one that the same probe call shows only in a dirty world is C10's).")
    out.append("Later misses under other seeds showed thin margins in the quick tier (DESIGN.md section 10, items 22 and 31): `C10_m4`, `C10_r3`, `C12_m3`, `C20_r1`,")
    out.append("`C11_r10` and `C11_r6` were each missed under one seed at some point; the generator was stratified, budgets raised, the flavour decorrelated from the")
    out.append("strata and the `djb` operands steered; `C11_r6` and `C11_r10` were then caught under four seeds each (20261002, 7, 424242, 99).\n")
    out.append("## Seeded changes written by independent sub-agents (`seeded/<id>/`)\n")
    out.append("Each agent received the property text, a scratch worktree and (later rounds) a list of library areas to consider or to avoid - nothing from /verif.")
    out.append("Every change was confirmed by me in that worktree (compiles, `make check` 15/15 with the change, demonstration fails with it and passes without it)")
    out.append("and then run through `python3 sim/seedrun.py`.\n")
    out.append("| id | property | what the change does | what it needs to manifest | result |")
    out.append("|---|---|---|---|---|")
    total = missed_first = 0
    for d in sorted(glob.glob(os.path.join(VERIF, 'seeded/*'))):
        if not os.path.exists(d + '/meta.json'):
            continue
        m = json.load(open(d + '/meta.json'))

        def cl(x):
            return re.sub(r'\s+', ' ', str(x)).replace('|', '/')[:300]
        total += 1
        if str(m.get('status', '')).startswith('missed'):
            missed_first += 1
        out.append("| %s | %s | %s | %s | %s |" % (os.path.basename(d), m.get('property'), cl(m.get('summary')), cl(m.get('needs')), cl(m.get('check_result'))))
    out.append("\n%d of %d caught by the quick tier of the property's check at the final state; %d of them were missed by the first version of the check "
               "(each miss is described in its row and in DESIGN.md section 14).\n" % (total, total, missed_first))
    for e in seedlogs:
        label, path = e.rsplit("=", 1)
        res = re.findall(r'^(C\d\d[a-z])\s+check=(\S+)\s+tier=(\S+)\s+(\S+)', open(path).read(), re.M)
        ok = sum(1 for r in res if r[3] == "caught")
        bad = [r[0] + ":" + r[3] for r in res if r[3] != "caught"]
        out.append("All seeded changes re-run with %s: %d of %d caught%s.\n" % (label, ok, len(res), (" - not caught: " + ", ".join(bad)) if bad else ""))
    if neutral and os.path.exists(neutral):
        out.append("## Property-preserving changes written by independent sub-agents (`neutral/<id>/`)\n")
        out.append("Each keeps the listed properties true while changing how the library does things (allocation pattern, cache policy, synchronisation")
        out.append("constructs, tuning formulas, I/O route); `python3 sim/neutralrun.py` runs the relevant checks against it and every check must stay")
        out.append("silent. Three false alarms of the first run are described in DESIGN.md section 10, item 32.\n")
        out.append("| id | what the change does (first lines of its README) | checks run | result |")
        out.append("|---|---|---|---|")
        res = {}
        for m in re.finditer(r'^(C\d\d_\d)\s+check=(\S+)\s+(\S+)', open(neutral).read(), re.M):
            res.setdefault(m.group(1), []).append((m.group(2), m.group(3)))
        nsil = ntot = 0
        for nid in sorted(res):
            try:
                txt = re.sub(r'\s+', ' ', open(os.path.join(VERIF, 'neutral', nid, 'README.txt')).read())[:260].replace('|', '/')
            except OSError:
                txt = ""
            oks = [c for c, r in res[nid] if r == "silent"]
            ntot += len(res[nid]); nsil += len(oks)
            out.append("| %s | %s | %s | %s |" % (nid, txt, " ".join(c for c, r in res[nid]), "all silent" if len(oks) == len(res[nid]) else ", ".join("%s:%s" % (c, r) for c, r in res[nid] if r != "silent")))
        out.append("\n%d of %d check runs silent.\n" % (nsil, ntot))
    out.append("## Controls run on every invocation\n")
    out.append("* C15: the default (non-thread-safe) build under the thread workload must be flagged by the access monitor (32 control runs per invocation; a control that completes unflagged is exit 2).")
    out.append("* C16: the simulated runtime with critical sections turned into no-ops must be flagged (32 control runs per invocation).")
    out.append("* C12: knob build vs. constant build at the same cache sizes: outputs and allocation signature must be identical, and the sizes must have changed the allocation pattern at least once (else exit 2).")
    out.append("* C20: a faulted run whose injected failure did not fire is exit 2, never a pass.")
    out.append("* every check: a violation that does not replay identically twice in fresh processes, or whose minimised replay does not reproduce, is exit 2.\n")
    open(os.path.join(VERIF, 'SENSITIVITY.md'), 'w').write("\n".join(out) + "\n")
    print("mutants caught %d/%d, silent %d/%d, seeds %d (%d missed at first)" % (nc, ne, ns, nes, total, missed_first))


if __name__ == "__main__":
    main()
