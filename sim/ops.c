/* Operation table, program parser/executor, matrix generators.  Harness code:
 * compiled without seams; calls the library only through ctx->L. */
#define _GNU_SOURCE
#include "ops.h"
#include <stdarg.h>
#include <stdlib.h>

int m4sim_l1 = 32768, m4sim_l2 = 1310720, m4sim_l3 = 56623104;

const lib_t *lib_by_name(const char *name) {
  for (int i = 0; i < m4sim_nlibs; i++)
    if (!strcmp(m4sim_libs[i]->name, name)) return m4sim_libs[i];
  return NULL;
}

/* ---------- text buffer ---------- */
void sb_reset(sbuf_t *b) { b->n = 0; if (b->s) b->s[0] = 0; }
void sb_printf(sbuf_t *b, const char *fmt, ...) {
  va_list ap;
  for (;;) {
    va_start(ap, fmt);
    int n = vsnprintf(b->s ? b->s + b->n : NULL, b->s ? b->cap - b->n : 0, fmt, ap);
    va_end(ap);
    if (b->s && (size_t)n < b->cap - b->n) { b->n += (size_t)n; return; }
    size_t nc = (b->cap ? b->cap * 2 : 4096) + (size_t)n;
    b->s = (char *)realloc(b->s, nc);
    b->cap = nc;
  }
}

/* ---------- hashing / padding ---------- */
uint64_t mat_hash(const mzd_t *M, uint64_t h) {
  if (!M) return fnv1a("null", 4, h);
  int32_t d[2] = { M->nrows, M->ncols };
  h = fnv1a(d, sizeof d, h);
  if (M->nrows == 0 || M->ncols == 0) return h;
  for (rci_t i = 0; i < M->nrows; i++) {
    const word *r = mzd_row_const(M, i);
    if (M->width > 1) h = fnv1a(r, (size_t)(M->width - 1) * 8, h);
    word last = r[M->width - 1] & M->high_bitmask;
    h = fnv1a(&last, 8, h);
  }
  return h;
}
int mat_padding_dirty(const mzd_t *M) {
  if (!M || M->nrows == 0 || M->ncols == 0) return 0;
  for (rci_t i = 0; i < M->nrows; i++)
    if (mzd_row_const(M, i)[M->width - 1] & ~M->high_bitmask) return 1;
  return 0;
}
int mat_stride_padding_dirty(const mzd_t *M) {
  if (!M || M->nrows == 0 || M->ncols == 0 || M->rowstride == M->width) return 0;
  for (rci_t i = 0; i < M->nrows; i++)
    for (wi_t j = M->width; j < M->rowstride; j++)
      if (mzd_row_const(M, i)[j]) return 1;
  return 0;
}
uint64_t ctx_hash(const ctx_t *c) {
  uint64_t h = FNV0;
  for (int i = 0; i < NREG; i++)
    if (c->m[i]) { h = fnv1a(&i, 4, h); h = mat_hash(c->m[i], h); }
  for (int i = 0; i < NPREG; i++)
    if (c->p[i]) {
      h = fnv1a(&i, 4, h);
      h = fnv1a(&c->p[i]->length, 4, h);
      h = fnv1a(c->p[i]->values, (size_t)c->p[i]->length * 4, h);
    }
  h = fnv1a(&c->ophash, 8, h);
  return h;
}
int ctx_check_padding(ctx_t *c) {
  for (int i = 0; i < NREG; i++) {
    if (c->m[i] && c->parent[i] < 0) {
      if (mat_padding_dirty(c->m[i])) return i;
      if (mat_stride_padding_dirty(c->m[i])) c->pad_stride_dirty++;
    }
    if (c->hid[i] && mat_padding_dirty(c->hid[i])) return i; /* the owner a window operand lives in */
  }
  return -1;
}

void ctx_init(ctx_t *c, const lib_t *L) {
  memset(c, 0, sizeof *c);
  c->L = L;
  for (int i = 0; i < NREG; i++) c->parent[i] = -1;
  c->pad_violation = -1;
  c->ophash = FNV0;
}
static void reg_free(ctx_t *c, int r) {
  if (!c->m[r]) return;
  if (c->parent[r] >= 0 && c->parent[r] < NREG) { c->nwin[c->parent[r]]--; }
  c->L->mzd_free(c->m[r]);
  if (c->hid[r]) { c->L->mzd_free(c->hid[r]); c->hid[r] = NULL; }
  c->m[r] = NULL; c->parent[r] = -1;
}
void ctx_free_all(ctx_t *c) {
  for (int i = 0; i < NREG; i++) if (c->m[i] && c->parent[i] >= 0) reg_free(c, i); /* windows first */
  for (int i = 0; i < NREG; i++) if (c->m[i]) reg_free(c, i);
  for (int i = 0; i < NPREG; i++) if (c->p[i]) { c->L->mzp_free(c->p[i]); c->p[i] = NULL; }
}

/* ---------- generators (harness arithmetic) ---------- */
static void mat_clear(mzd_t *M) {
  for (rci_t i = 0; i < M->nrows; i++) {
    word *r = mzd_row(M, i);
    for (wi_t j = 0; j < M->width - 1; j++) r[j] = 0;
    r[M->width - 1] &= ~M->high_bitmask;
  }
}
static inline void mat_setbit(mzd_t *M, rci_t i, rci_t j, int v) {
  word *w = mzd_row(M, i) + j / 64;
  word b = (word)1 << (j % 64);
  *w = v ? (*w | b) : (*w & ~b);
}
static inline int mat_getbit(const mzd_t *M, rci_t i, rci_t j) { return (int)((mzd_row_const(M, i)[j / 64] >> (j % 64)) & 1); }
static void mat_set_word(mzd_t *M, rci_t i, wi_t j, word v) { /* respects windows: keeps excess bits */
  word *r = mzd_row(M, i);
  if (j == M->width - 1) r[j] = (r[j] & ~M->high_bitmask) | (v & M->high_bitmask);
  else r[j] = v;
}
static word rand_word_density(rng_t *r, long p) { /* p in 0..256, probability p/256 per bit */
  if (p >= 256) return ~(word)0;
  if (p <= 0) return 0;
  if (p == 128) return rng_u64(r);
  word w = 0;
  /* build from binary expansion of p/256: 8 random words */
  for (int b = 0; b < 8; b++) {
    word x = rng_u64(r);
    if ((p >> b) & 1) w |= x; else w &= x;
  }
  return w;
}
/* rows x cols bit matrix in plain arrays, for rank-profile construction */
typedef struct { int r, c, w; word *d; } bm_t;
static bm_t bm_new(int r, int c) { bm_t b = { r, c, (c + 63) / 64, NULL }; b.d = (word *)calloc((size_t)(r ? r : 1) * (size_t)(b.w ? b.w : 1), 8); return b; }
static void bm_free(bm_t *b) { free(b->d); b->d = NULL; }

int gen_fresh_world_has_zero_surroundings; /* set by the hist engine: in its world 0 a view lives in an all-zero parent */
uint64_t gen_world_seed; /* 0: "fresh" world (junk = zeros / identity); else junk content is drawn from it */
void gen_fill(mzd_t *M, const char *gen, long p, uint64_t seed) {
  if (!M || M->nrows == 0 || M->ncols == 0) return;
  rng_t r = rng_make(seed ^ 0x6d6174ULL);
  rci_t m = M->nrows, n = M->ncols;
  mat_clear(M);
  if (!strcmp(gen, "zero")) return;
  if (!strcmp(gen, "junk")) { /* prior content of a destination the operation overwrites: differs from world to world */
    if (!gen_world_seed) return;
    rng_t w = rng_make(gen_world_seed ^ seed ^ 0x6a756e6bULL);
    for (rci_t i = 0; i < m; i++)
      for (wi_t j = 0; j < M->width; j++) mat_set_word(M, i, j, rng_u64(&w));
    return;
  }
  if (!strcmp(gen, "rand")) {
    for (rci_t i = 0; i < m; i++)
      for (wi_t j = 0; j < M->width; j++) mat_set_word(M, i, j, rand_word_density(&r, p));
    return;
  }
  if (!strcmp(gen, "id")) { for (rci_t i = 0; i < (m < n ? m : n); i++) mat_setbit(M, i, i, 1); return; }
  if (!strcmp(gen, "one")) { mat_setbit(M, (rci_t)rng_below(&r, m), (rci_t)rng_below(&r, n), 1); return; }
  if (!strcmp(gen, "sparse")) {
    for (long k = 0; k < p; k++) mat_setbit(M, (rci_t)rng_below(&r, m), (rci_t)rng_below(&r, n), 1);
    return;
  }
  if (!strcmp(gen, "uut") || !strcmp(gen, "ult")) { /* unit upper / lower triangular; p&1: junk in the other triangle */
    int upper = gen[1] == 'u';
    for (rci_t i = 0; i < m; i++) {
      for (wi_t j = 0; j < M->width; j++) mat_set_word(M, i, j, rng_u64(&r));
      for (rci_t j = 0; j < n; j++) {
        int in_tri = upper ? (j > i) : (j < i);
        if (j == i) mat_setbit(M, i, j, 1);
        else if (!in_tri && !(p & 1)) mat_setbit(M, i, j, 0);
      }
    }
    return;
  }
  if (!strcmp(gen, "inv")) { /* invertible: P * L * U with L unit lower, U unit upper (square only; else like rank) */
    int nn = m < n ? m : n;
    bm_t Lm = bm_new(nn, nn), Um = bm_new(nn, nn);
    for (int i = 0; i < nn; i++) {
      for (int j = 0; j < Lm.w; j++) { Lm.d[i * Lm.w + j] = rng_u64(&r); Um.d[i * Um.w + j] = rng_u64(&r); }
      for (int j = 0; j < nn; j++) {
        word bit = (word)1 << (j % 64);
        if (j > i) Lm.d[i * Lm.w + j / 64] &= ~bit;
        if (j < i) Um.d[i * Um.w + j / 64] &= ~bit;
        if (j == i) { Lm.d[i * Lm.w + j / 64] |= bit; Um.d[i * Um.w + j / 64] |= bit; }
      }
      for (int j = nn; j < Lm.w * 64; j++) { word bit = (word)1 << (j % 64); Lm.d[i * Lm.w + j / 64] &= ~bit; Um.d[i * Um.w + j / 64] &= ~bit; }
    }
    int *perm = (int *)malloc(sizeof(int) * (size_t)nn);
    for (int i = 0; i < nn; i++) perm[i] = i;
    for (int i = nn - 1; i > 0; i--) { int j = (int)rng_below(&r, (uint64_t)i + 1); int t = perm[i]; perm[i] = perm[j]; perm[j] = t; }
    for (int i = 0; i < nn; i++) {
      word *row = mzd_row(M, perm[i]);
      for (int k = 0; k < nn; k++)
        if ((Lm.d[i * Lm.w + k / 64] >> (k % 64)) & 1)
          for (int j = 0; j < Um.w && j < M->width; j++) row[j] ^= Um.d[k * Um.w + j];
    }
    free(perm); bm_free(&Lm); bm_free(&Um);
    /* restore mask (rows were xored with masked data only, but be explicit) */
    return;
  }
  if (!strcmp(gen, "leadz")) { /* p = lead*1000 + density(0..256): `lead` zero columns, then random columns of that density */
    int lead = (int)(p / 1000), dens = (int)(p % 1000);
    if (lead >= n) lead = n - 1;
    for (rci_t i = 0; i < m; i++)
      for (wi_t j = 0; j < M->width; j++) {
        word v = rand_word_density(&r, dens);
        rci_t c0 = (rci_t)j * 64;
        if (c0 + 64 <= lead) v = 0;
        else if (c0 < lead) v &= ~(((word)1 << (lead - c0)) - 1);
        mat_set_word(M, i, j, v);
      }
    return;
  }
  if (!strcmp(gen, "widegap")) { /* p = lead*1000 + rank: `lead` zero columns first, then a rank-limited block whose early stripes lack pivots */
    int lead = (int)(p / 1000), rk = (int)(p % 1000);
    if (rk < 1) rk = 1;
    if (lead >= n) lead = n - 1;
    bm_t Y = bm_new(rk, n);
    for (int i = 0; i < rk; i++)
      for (int j = 0; j < Y.w; j++) Y.d[i * Y.w + j] = rng_u64(&r);
    /* zero the leading columns and, stripe by stripe of 8 columns, every second stripe up to column 128 */
    for (int j = 0; j < n; j++) {
      int kill = j < lead || (j < 128 && ((j / 8) & 1) && (seed & 1));
      if (kill) for (int i = 0; i < rk; i++) Y.d[i * Y.w + j / 64] &= ~((word)1 << (j % 64));
    }
    for (rci_t i = 0; i < m; i++) {
      word *row = mzd_row(M, i);
      word sel[4];
      for (int k = 0; k < 4; k++) sel[k] = rng_u64(&r);
      for (int k = 0; k < rk && k < 256; k++)
        if ((sel[k / 64] >> (k % 64)) & 1)
          for (int j = 0; j < M->width; j++) { word v = Y.d[k * Y.w + j]; if (j == M->width - 1) v &= M->high_bitmask; row[j] ^= v; }
    }
    bm_free(&Y);
    return;
  }
  if (!strcmp(gen, "rank")) { /* rank <= p, with zero column blocks crossing word boundaries */
    int rk = (int)p;
    if (rk > m) rk = m;
    if (rk > n) rk = n;
    if (rk <= 0) return;
    bm_t Y = bm_new(rk, n);
    for (int i = 0; i < rk; i++)
      for (int j = 0; j < Y.w; j++) Y.d[i * Y.w + j] = rng_u64(&r);
    int ngaps = (int)rng_below(&r, 3);
    for (int g = 0; g < ngaps; g++) {
      int a = (int)rng_below(&r, (uint64_t)n), len = 1 + (int)rng_below(&r, 90);
      for (int j = a; j < a + len && j < n; j++)
        for (int i = 0; i < rk; i++) Y.d[i * Y.w + j / 64] &= ~((word)1 << (j % 64));
    }
    for (rci_t i = 0; i < m; i++) {
      word *row = mzd_row(M, i);
      word sel[64];
      int selw = (rk + 63) / 64;
      if (selw > 64) selw = 64;
      for (int k = 0; k < selw; k++) sel[k] = rng_u64(&r);
      if (rng_below(&r, 8) == 0) continue; /* zero row = dependent row */
      for (int k = 0; k < rk && k < 64 * 64; k++)
        if ((sel[k / 64] >> (k % 64)) & 1)
          for (int j = 0; j < M->width; j++) {
            word v = Y.d[k * Y.w + j];
            if (j == M->width - 1) v &= M->high_bitmask;
            row[j] ^= v;
          }
    }
    bm_free(&Y);
    return;
  }
  /* unknown generator: uniform */
  for (rci_t i = 0; i < m; i++)
    for (wi_t j = 0; j < M->width; j++) mat_set_word(M, i, j, rng_u64(&r));
}

void gen_perm(mzp_t *P, const char *gen, uint64_t seed, rci_t bound) {
  rng_t r = rng_make(seed ^ 0x7065726dULL);
  (void)bound;
  for (rci_t i = 0; i < P->length; i++) {
    if (!strcmp(gen, "id")) P->values[i] = i;
    else if (!strcmp(gen, "junk")) { /* arbitrary prior content of an output-only operand; world dependent */
      if (!gen_world_seed) P->values[i] = i;
      else { if (i == 0) r = rng_make(seed ^ gen_world_seed ^ 0x6a70ULL); P->values[i] = (rci_t)rng_u64(&r); }
    }
    else P->values[i] = i + (rci_t)rng_below(&r, (uint64_t)(P->length - i)); /* LAPACK style: i <= P[i] < length */
  }
}

int strassen_guard_ok(long m, long k, long n, long cutoff) {
  /* Was a domain guard on the pinned tree: with an effective cutoff of 64 the Strassen split produced empty quadrants when the
   * smallest dimension lay in [86,128).  The defect turned out to be reachable from claimed C11 (valid TRSM/solve calls crash),
   * was repaired in /repo (fix commit 8eaec0d), and the guard is gone: every cutoff is generated for every shape. */
  (void)m; (void)k; (void)n; (void)cutoff;
  return 1;
}

/* ---------- op helpers ---------- */
#define L (c->L)
#define SKIP(why) do { c->skipped = 1; snprintf(c->skipwhy, sizeof c->skipwhy, "%s", why); return OP_SKIP; } while (0)
#define REQ(cond) do { if (!(cond)) SKIP(#cond); } while (0)
#define ISREG(x) ((x) >= 0 && (x) < NREG)
#define MAT(x) (ISREG(x) ? c->m[x] : NULL)
#define ISP(x) ((x) >= 0 && (x) < NPREG)
#define PERM(x) (ISP(x) ? c->p[x] : NULL)
static void push_ret(ctx_t *c, long v) {
  if (c->nret < 64) c->ret[c->nret++] = v;
  c->ophash = fnv1a(&v, sizeof v, c->ophash);
}
/* destination handling: a register that is empty means "pass NULL, store what comes back" */
static int set_result(ctx_t *c, long reg, mzd_t *res) {
  if (!ISREG(reg)) { if (res) L->mzd_free(res); return 0; }
  if (c->m[reg] == NULL) { c->m[reg] = res; c->parent[reg] = -1; }
  return 0;
}
static int overlaps_reg(ctx_t *c, long a, long b) { /* same storage family? */
  if (!ISREG(a) || !ISREG(b)) return 0;
  long ra = a, rb = b;
  while (c->parent[ra] >= 0 && c->parent[ra] < NREG) ra = c->parent[ra];
  while (c->parent[rb] >= 0 && c->parent[rb] < NREG) rb = c->parent[rb];
  return ra == rb; /* a `wmat` window has a hidden parent of its own: it overlaps nothing else */
}

/* ---- multiplication family: args C A B param ---- */
enum { MUL_NAIVE, ADDMUL_NAIVE, MUL_M4RM, ADDMUL_M4RM, MUL_STR, ADDMUL_STR, MUL_VA, MUL_MP, ADDMUL_MP };
static int do_mul(ctx_t *c, const long *a, int kind) {
  mzd_t *A = MAT(a[1]), *B = MAT(a[2]);
  REQ(ISREG(a[0]) && A && B);
  REQ(A->ncols == B->nrows);
  REQ(A->nrows > 0 && A->ncols > 0 && B->ncols > 0);
  mzd_t *C = c->m[a[0]];
  int addv = (kind == ADDMUL_NAIVE || kind == ADDMUL_M4RM || kind == ADDMUL_STR || kind == ADDMUL_MP);
  if (kind == ADDMUL_NAIVE || kind == MUL_VA) REQ(C != NULL);
  if (C) { REQ(C->nrows == A->nrows && C->ncols == B->ncols); REQ(!overlaps_reg(c, a[0], a[1]) && !overlaps_reg(c, a[0], a[2])); }
  long par = a[3];
  mzd_t *R = NULL;
  switch (kind) {
  case MUL_NAIVE: R = L->mzd_mul_naive(C, A, B); break;
  case ADDMUL_NAIVE: R = L->mzd_addmul_naive(C, A, B); break;
  case MUL_VA: R = L->_mzd_mul_va(C, A, B, 1); break;
  case MUL_M4RM: REQ(par >= 0 && par <= 16); /* any k is admissible here: the routine clamps it to 2..8 */ R = L->mzd_mul_m4rm(C, A, B, (int)par); break;
  case ADDMUL_M4RM: REQ(par >= 0 && par <= 16); R = L->mzd_addmul_m4rm(C, A, B, (int)par); break;
  case MUL_STR: REQ(par >= 0 && strassen_guard_ok(A->nrows, A->ncols, B->ncols, par)); R = L->mzd_mul(C, A, B, (int)par); break;
  case ADDMUL_STR: REQ(par >= 0 && strassen_guard_ok(A->nrows, A->ncols, B->ncols, par)); R = L->mzd_addmul(C, A, B, (int)par); break;
  case MUL_MP: REQ(L->mzd_mul_mp && par >= 0 && strassen_guard_ok(A->nrows, A->ncols, B->ncols, par)); R = L->mzd_mul_mp(C, A, B, (int)par); break;
  case ADDMUL_MP: REQ(L->mzd_addmul_mp && par >= 0 && strassen_guard_ok(A->nrows, A->ncols, B->ncols, par)); R = L->mzd_addmul_mp(C, A, B, (int)par); break;
  }
  (void)addv;
  if (!C) set_result(c, a[0], R);
  return OP_OK;
}
static int op_mul_naive(ctx_t *c, const long *a) { return do_mul(c, a, MUL_NAIVE); }
static int op_addmul_naive(ctx_t *c, const long *a) { return do_mul(c, a, ADDMUL_NAIVE); }
static int op_mul_va(ctx_t *c, const long *a) { return do_mul(c, a, MUL_VA); }
static int op_mul_m4rm(ctx_t *c, const long *a) { return do_mul(c, a, MUL_M4RM); }
static int op_addmul_m4rm(ctx_t *c, const long *a) { return do_mul(c, a, ADDMUL_M4RM); }
static int op_mul(ctx_t *c, const long *a) { return do_mul(c, a, MUL_STR); }
static int op_addmul(ctx_t *c, const long *a) { return do_mul(c, a, ADDMUL_STR); }
static int op_mul_mp(ctx_t *c, const long *a) { return do_mul(c, a, MUL_MP); }
static int op_addmul_mp(ctx_t *c, const long *a) { return do_mul(c, a, ADDMUL_MP); }
static int op_mul_naive_t(ctx_t *c, const long *a) { /* C A BT clear : the documented product with a pre-transposed right factor, C = A * BT^T (C supplied) */
  mzd_t *A = MAT(a[1]), *BT = MAT(a[2]);
  REQ(ISREG(a[0]) && A && BT && c->m[a[0]]);
  mzd_t *C = c->m[a[0]];
  REQ(A->ncols == BT->ncols && C->nrows == A->nrows && C->ncols == BT->nrows && A->nrows > 0 && A->ncols > 0 && BT->nrows > 0);
  REQ(!overlaps_reg(c, a[0], a[1]) && !overlaps_reg(c, a[0], a[2]));
  L->_mzd_mul_naive(C, A, BT, a[3] != 0);
  return OP_OK;
}
static int op_sqr(ctx_t *c, const long *a) { /* C A cutoff : mzd_mul(C, A, A) -> squaring route */
  mzd_t *A = MAT(a[1]);
  REQ(ISREG(a[0]) && A && A->nrows == A->ncols && A->nrows > 0);
  mzd_t *C = c->m[a[0]];
  if (C) { REQ(C->nrows == A->nrows && C->ncols == A->ncols && !overlaps_reg(c, a[0], a[1])); }
  REQ(a[2] >= 0 && strassen_guard_ok(A->nrows, A->ncols, A->ncols, a[2]));
  mzd_t *R = L->mzd_mul(C, A, A, (int)a[2]);
  if (!C) set_result(c, a[0], R);
  return OP_OK;
}
static int op_addsqr(ctx_t *c, const long *a) { /* C A cutoff : mzd_addmul(C, A, A) -> the accumulate-a-square route (_mzd_addsqr_even) */
  mzd_t *A = MAT(a[1]);
  REQ(ISREG(a[0]) && A && A->nrows == A->ncols && A->nrows > 0);
  mzd_t *C = c->m[a[0]];
  if (C) { REQ(C->nrows == A->nrows && C->ncols == A->ncols && !overlaps_reg(c, a[0], a[1])); }
  REQ(a[2] >= 0);
  mzd_t *R = L->mzd_addmul(C, A, A, (int)a[2]);
  if (!C) set_result(c, a[0], R);
  return OP_OK;
}
static int op_djb(ctx_t *c, const long *a) { /* C A B mode : C = A*B through a compiled DJB map.  mode&1: compile A itself (consumed), else a copy; mode&2: C is supplied */
  mzd_t *A = MAT(a[1]), *B = MAT(a[2]);
  REQ(ISREG(a[0]) && A && B && A->ncols == B->nrows);
  REQ(A->nrows > 0 && A->ncols > 0 && B->ncols > 0);
  mzd_t *C = c->m[a[0]];
  if (a[3] & 2) REQ(C && C->nrows == A->nrows && C->ncols == B->ncols && !overlaps_reg(c, a[0], a[1]) && !overlaps_reg(c, a[0], a[2]));
  else REQ(!C);
  mzd_t *Ac = (a[3] & 1) ? A : L->mzd_copy(NULL, A);
  djb_t *z = L->djb_compile(Ac);
  if (!C) C = L->mzd_init(A->nrows, B->ncols);
  L->djb_apply_mzd(z, C, B);
  if (z->length < 200) L->djb_print(z); /* to stdout, which the run discards */
  L->m4shim_djb_free(z);
  if (!(a[3] & 1)) L->mzd_free(Ac);
  if (!(a[3] & 2)) set_result(c, a[0], C);
  return OP_OK;
}

/* ---- elimination family: A full k ---- */
static int op_ech_naive(ctx_t *c, const long *a) { mzd_t *A = MAT(a[0]); REQ(A && A->nrows > 0 && A->ncols > 0); push_ret(c, L->mzd_echelonize_naive(A, a[1] != 0)); return OP_OK; }
static int op_ech_m4ri(ctx_t *c, const long *a) { mzd_t *A = MAT(a[0]); REQ(A && A->nrows > 0 && A->ncols > 0 && a[2] >= 0 && a[2] <= 10); push_ret(c, L->mzd_echelonize_m4ri(A, a[1] != 0, (int)a[2])); return OP_OK; }
static int op_ech_pluq(ctx_t *c, const long *a) { mzd_t *A = MAT(a[0]); REQ(A && A->nrows > 0 && A->ncols > 0); push_ret(c, L->mzd_echelonize_pluq(A, a[1] != 0)); return OP_OK; }
static int op_ech(ctx_t *c, const long *a) { mzd_t *A = MAT(a[0]); REQ(A && A->nrows > 0 && A->ncols > 0); push_ret(c, L->mzd_echelonize(A, a[1] != 0)); return OP_OK; }
static int op_top_ech(ctx_t *c, const long *a) { /* A k : row echelon form first, then top reduction */
  mzd_t *A = MAT(a[0]);
  REQ(A && A->nrows > 0 && A->ncols > 0 && a[1] >= 0 && a[1] <= 10);
  push_ret(c, L->mzd_echelonize_m4ri(A, 0, 0));
  L->mzd_top_echelonize_m4ri(A, (int)a[1]);
  return OP_OK;
}
/* ---- factorisation family: A P Q param ---- */
enum { F_PLE, F_PLUQ, F_PLE_NAIVE, F_PLUQ_NAIVE, F_PLE_RUS, F_PLUQ_RUS };
static int do_fact(ctx_t *c, const long *a, int kind) {
  mzd_t *A = MAT(a[0]);
  mzp_t *P = PERM(a[1]), *Q = PERM(a[2]);
  REQ(A && P && Q && A->nrows > 0 && A->ncols > 0);
  REQ(P->length == A->nrows && Q->length == A->ncols && a[1] != a[2]);
  long par = a[3];
  REQ(par >= 0);
  long r = 0;
  switch (kind) {
  case F_PLE: r = L->mzd_ple(A, P, Q, (int)par); break;
  case F_PLUQ: r = L->mzd_pluq(A, P, Q, (int)par); break;
  case F_PLE_NAIVE: r = L->_mzd_ple_naive(A, P, Q); break;
  case F_PLUQ_NAIVE: r = L->_mzd_pluq_naive(A, P, Q); break;
  case F_PLE_RUS: REQ(par <= 9); r = L->_mzd_ple_russian(A, P, Q, (int)par); break;
  case F_PLUQ_RUS: REQ(par <= 9); r = L->_mzd_pluq_russian(A, P, Q, (int)par); break;
  }
  push_ret(c, r);
  return OP_OK;
}
static int op_ple(ctx_t *c, const long *a) { return do_fact(c, a, F_PLE); }
static int op_pluq(ctx_t *c, const long *a) { return do_fact(c, a, F_PLUQ); }
static int op_ple_naive(ctx_t *c, const long *a) { return do_fact(c, a, F_PLE_NAIVE); }
static int op_pluq_naive(ctx_t *c, const long *a) { return do_fact(c, a, F_PLUQ_NAIVE); }
static int op_ple_russian(ctx_t *c, const long *a) { return do_fact(c, a, F_PLE_RUS); }
static int op_pluq_russian(ctx_t *c, const long *a) { return do_fact(c, a, F_PLUQ_RUS); }

/* ---- triangular: T B cutoff ---- */
enum { T_UL, T_LL, T_UR, T_LR };
static int do_trsm(ctx_t *c, const long *a, int kind) {
  mzd_t *T = MAT(a[0]), *B = MAT(a[1]);
  REQ(T && B && T->nrows == T->ncols && T->nrows > 0 && B->nrows > 0 && B->ncols > 0 && a[2] >= 0);
  REQ(!overlaps_reg(c, a[0], a[1]));
  if (kind == T_UL || kind == T_LL) REQ(B->nrows == T->ncols); else REQ(B->ncols == T->nrows);
  switch (kind) {
  case T_UL: L->mzd_trsm_upper_left(T, B, (int)a[2]); break;
  case T_LL: L->mzd_trsm_lower_left(T, B, (int)a[2]); break;
  case T_UR: L->mzd_trsm_upper_right(T, B, (int)a[2]); break;
  case T_LR: L->mzd_trsm_lower_right(T, B, (int)a[2]); break;
  }
  return OP_OK;
}
static int op_trsm_ul(ctx_t *c, const long *a) { return do_trsm(c, a, T_UL); }
static int op_trsm_ll(ctx_t *c, const long *a) { return do_trsm(c, a, T_LL); }
static int op_trsm_ur(ctx_t *c, const long *a) { return do_trsm(c, a, T_UR); }
static int op_trsm_lr(ctx_t *c, const long *a) { return do_trsm(c, a, T_LR); }
static int is_unit_upper(const mzd_t *A) {
  for (rci_t i = 0; i < A->nrows; i++) {
    if (!mat_getbit(A, i, i)) return 0;
    for (rci_t j = 0; j < i; j++) if (mat_getbit(A, i, j)) return 0;
  }
  return 1;
}
static int op_trtri(ctx_t *c, const long *a) { /* A : in place inverse of a unit upper triangular matrix */
  mzd_t *A = MAT(a[0]);
  REQ(A && A->nrows == A->ncols && A->nrows > 0);
  REQ(is_unit_upper(A));
  L->mzd_trtri_upper(A);
  return OP_OK;
}
static int op_inv_m4ri(ctx_t *c, const long *a) { /* D A k  (A must be invertible: guaranteed by generator 'inv'; singular input is outside the domain) */
  mzd_t *A = MAT(a[1]);
  REQ(ISREG(a[0]) && A && A->nrows == A->ncols && A->nrows > 0 && a[2] >= 0 && a[2] <= 10);
  mzd_t *D = c->m[a[0]];
  if (D) REQ(D->nrows == A->nrows && D->ncols == A->ncols && !overlaps_reg(c, a[0], a[1]));
  mzd_t *R = L->mzd_inv_m4ri(D, A, (int)a[2]);
  if (!D) set_result(c, a[0], R);
  push_ret(c, R != NULL);
  return OP_OK;
}
static int op_invert_naive(ctx_t *c, const long *a) { /* D A */
  mzd_t *A = MAT(a[1]);
  REQ(ISREG(a[0]) && A && A->nrows == A->ncols && A->nrows > 0);
  mzd_t *D = c->m[a[0]];
  if (D) REQ(D->nrows == A->nrows && D->ncols == A->ncols && !overlaps_reg(c, a[0], a[1]));
  mzd_t *I = L->mzd_init(A->nrows, A->ncols);
  L->mzd_set_ui(I, 1);
  mzd_t *R = L->mzd_invert_naive(D, A, I);
  L->mzd_free(I);
  if (!D) set_result(c, a[0], R);
  return OP_OK;
}
/* ---- solving ---- */
static int op_solve(ctx_t *c, const long *a) { /* A B cutoff  (A overwritten, B -> X) */
  mzd_t *A = MAT(a[0]), *B = MAT(a[1]);
  REQ(A && B && A->nrows > 0 && A->ncols > 0 && B->ncols > 0 && a[2] >= 0);
  REQ(B->nrows == (A->nrows > A->ncols ? A->nrows : A->ncols) && !overlaps_reg(c, a[0], a[1]));
  push_ret(c, L->mzd_solve_left(A, B, (int)a[2], 1));
  return OP_OK;
}
static int op_pluq_solve(ctx_t *c, const long *a) { /* A B cutoff : factor a copy, then solve with the factors */
  mzd_t *A = MAT(a[0]), *B = MAT(a[1]);
  REQ(A && B && A->nrows > 0 && A->ncols > 0 && B->ncols > 0 && a[2] >= 0);
  REQ(B->nrows == (A->nrows > A->ncols ? A->nrows : A->ncols) && !overlaps_reg(c, a[0], a[1]));
  mzd_t *F = L->mzd_copy(NULL, A);
  mzp_t *P = L->mzp_init(A->nrows), *Q = L->mzp_init(A->ncols);
  rci_t r = L->mzd_pluq(F, P, Q, (int)a[2]);
  push_ret(c, r);
  push_ret(c, L->mzd_pluq_solve_left(F, r, P, Q, B, (int)a[2], 1));
  L->mzp_free(P); L->mzp_free(Q); L->mzd_free(F);
  return OP_OK;
}
static int op_kernel(ctx_t *c, const long *a) { /* K A cutoff */
  mzd_t *A = MAT(a[1]);
  REQ(ISREG(a[0]) && !c->m[a[0]] && A && A->nrows > 0 && A->ncols > 0 && a[2] >= 0);
  mzd_t *K = L->mzd_kernel_left_pluq(A, (int)a[2]);
  push_ret(c, K != NULL);
  if (K) set_result(c, a[0], K);
  return OP_OK;
}
/* ---- data movement ---- */
static int op_add(ctx_t *c, const long *a) { /* C A B ; C may be empty, or equal A or B (documented aliasing) */
  mzd_t *A = MAT(a[1]), *B = MAT(a[2]);
  REQ(ISREG(a[0]) && A && B && A->nrows == B->nrows && A->ncols == B->ncols && A->nrows > 0 && A->ncols > 0);
  mzd_t *C = c->m[a[0]];
  if (C) {
    REQ(C->nrows == A->nrows && C->ncols == A->ncols);
    if (a[0] != a[1] && a[0] != a[2]) REQ(!overlaps_reg(c, a[0], a[1]) && !overlaps_reg(c, a[0], a[2]));
  }
  mzd_t *R = L->mzd_add(C, A, B);
  if (!C) set_result(c, a[0], R);
  return OP_OK;
}
static int op_transpose(ctx_t *c, const long *a) { /* D A */
  mzd_t *A = MAT(a[1]);
  REQ(ISREG(a[0]) && A && A->nrows > 0 && A->ncols > 0);
  mzd_t *D = c->m[a[0]];
  if (D) REQ(D->nrows == A->ncols && D->ncols == A->nrows && !overlaps_reg(c, a[0], a[1]));
  mzd_t *R = L->mzd_transpose(D, A);
  if (!D) set_result(c, a[0], R);
  return OP_OK;
}
static int op_copy(ctx_t *c, const long *a) { /* D A */
  mzd_t *A = MAT(a[1]);
  REQ(ISREG(a[0]) && A && A->nrows > 0 && A->ncols > 0);
  mzd_t *D = c->m[a[0]];
  if (D) REQ(D->nrows == A->nrows && D->ncols == A->ncols && !overlaps_reg(c, a[0], a[1]));
  mzd_t *R = L->mzd_copy(D, A);
  if (!D) set_result(c, a[0], R);
  return OP_OK;
}
static int op_submatrix(ctx_t *c, const long *a) { /* S M lowr lowc highr highc */
  mzd_t *M = MAT(a[1]);
  REQ(ISREG(a[0]) && M && M->nrows > 0 && M->ncols > 0);
  REQ(a[2] >= 0 && a[3] >= 0 && a[4] > a[2] && a[5] > a[3] && a[4] <= M->nrows && a[5] <= M->ncols);
  mzd_t *S = c->m[a[0]];
  if (S) REQ(S->nrows == a[4] - a[2] && S->ncols == a[5] - a[3] && !overlaps_reg(c, a[0], a[1]));
  mzd_t *R = L->mzd_submatrix(S, M, (rci_t)a[2], (rci_t)a[3], (rci_t)a[4], (rci_t)a[5]);
  if (!S) set_result(c, a[0], R);
  return OP_OK;
}
static int op_concat(ctx_t *c, const long *a) {
  mzd_t *A = MAT(a[1]), *B = MAT(a[2]);
  REQ(ISREG(a[0]) && A && B && A->nrows == B->nrows && A->nrows > 0 && A->ncols > 0 && B->ncols > 0);
  mzd_t *C = c->m[a[0]];
  if (C) REQ(C->nrows == A->nrows && C->ncols == A->ncols + B->ncols && !overlaps_reg(c, a[0], a[1]) && !overlaps_reg(c, a[0], a[2]));
  mzd_t *R = L->mzd_concat(C, A, B);
  if (!C) set_result(c, a[0], R);
  return OP_OK;
}
static int op_stack(ctx_t *c, const long *a) {
  mzd_t *A = MAT(a[1]), *B = MAT(a[2]);
  REQ(ISREG(a[0]) && A && B && A->ncols == B->ncols && A->nrows > 0 && A->ncols > 0 && B->nrows > 0);
  mzd_t *C = c->m[a[0]];
  if (C) REQ(C->ncols == A->ncols && C->nrows == A->nrows + B->nrows && !overlaps_reg(c, a[0], a[1]) && !overlaps_reg(c, a[0], a[2]));
  mzd_t *R = L->mzd_stack(C, A, B);
  if (!C) set_result(c, a[0], R);
  return OP_OK;
}
static int do_extract(ctx_t *c, const long *a, int upper) { /* U A (square) */
  mzd_t *A = MAT(a[1]);
  REQ(ISREG(a[0]) && A && A->nrows > 0 && A->ncols > 0);
  mzd_t *U = c->m[a[0]];
  if (U) REQ(U->nrows == (A->nrows < A->ncols ? A->nrows : A->ncols) && U->ncols == U->nrows && !overlaps_reg(c, a[0], a[1]));
  mzd_t *R = upper ? L->mzd_extract_u(U, A) : L->mzd_extract_l(U, A);
  if (!U) set_result(c, a[0], R);
  return OP_OK;
}
static int op_extract_u(ctx_t *c, const long *a) { return do_extract(c, a, 1); }
static int op_extract_l(ctx_t *c, const long *a) { return do_extract(c, a, 0); }
static int op_set_ui(ctx_t *c, const long *a) { mzd_t *A = MAT(a[0]); REQ(A && A->nrows > 0 && A->ncols > 0); L->mzd_set_ui(A, (unsigned)(a[1] & 1)); return OP_OK; }
static int op_cmp(ctx_t *c, const long *a) {
  mzd_t *A = MAT(a[0]), *B = MAT(a[1]);
  REQ(A && B && A->nrows > 0 && A->ncols > 0 && B->nrows > 0 && B->ncols > 0);
  push_ret(c, L->mzd_equal(A, B));
  int v = L->mzd_cmp(A, B);
  push_ret(c, v < 0 ? -1 : v > 0);
  push_ret(c, L->mzd_is_zero(A));
  push_ret(c, L->mzd_first_zero_row(A));
  return OP_OK;
}
/* ---- permutations: A P ---- */
enum { AP_L, AP_LT, AP_R, AP_RT, AP_RTT };
static int perm_valid(const mzp_t *P) {
  for (rci_t i = 0; i < P->length; i++) if (P->values[i] < i || P->values[i] >= P->length) return 0;
  return 1;
}
static int do_apply(ctx_t *c, const long *a, int kind) {
  mzd_t *A = MAT(a[0]);
  mzp_t *P = PERM(a[1]);
  REQ(A && P && A->nrows > 0 && A->ncols > 0 && perm_valid(P));
  if (kind == AP_L || kind == AP_LT) REQ(P->length <= A->nrows); else REQ(P->length <= A->ncols);
  if (kind == AP_RTT) REQ(P->length == A->ncols);
  switch (kind) {
  case AP_L: L->mzd_apply_p_left(A, P); break;
  case AP_LT: L->mzd_apply_p_left_trans(A, P); break;
  case AP_R: L->mzd_apply_p_right(A, P); break;
  case AP_RT: L->mzd_apply_p_right_trans(A, P); break;
  case AP_RTT: L->mzd_apply_p_right_trans_tri(A, P); break;
  }
  return OP_OK;
}
static int op_ap_l(ctx_t *c, const long *a) { return do_apply(c, a, AP_L); }
static int op_ap_lt(ctx_t *c, const long *a) { return do_apply(c, a, AP_LT); }
static int op_ap_r(ctx_t *c, const long *a) { return do_apply(c, a, AP_R); }
static int op_ap_rt(ctx_t *c, const long *a) { return do_apply(c, a, AP_RT); }
static int op_ap_rtt(ctx_t *c, const long *a) { return do_apply(c, a, AP_RTT); }
static int op_ap_capped(ctx_t *c, const long *a) { /* A P start_row start_col trans : the block-wise column permutation used by PLE, from a row and column on */
  mzd_t *A = MAT(a[0]); mzp_t *P = PERM(a[1]);
  REQ(A && P && A->nrows > 0 && A->ncols > 0 && P->length <= A->ncols && a[2] >= 0 && a[2] <= A->nrows && a[3] >= 0 && a[3] <= P->length);
  for (rci_t i = 0; i < P->length; i++) REQ(P->values[i] >= i && P->values[i] < A->ncols);
  if (a[4]) L->mzd_apply_p_right_trans_even_capped(A, P, (rci_t)a[2], (rci_t)a[3]);
  else L->mzd_apply_p_right_even_capped(A, P, (rci_t)a[2], (rci_t)a[3]);
  return OP_OK;
}
static int op_mzp_copy(ctx_t *c, const long *a) { /* P Q */
  mzp_t *Q = PERM(a[1]);
  REQ(ISP(a[0]) && Q);
  mzp_t *P = c->p[a[0]];
  if (P) REQ(P->length >= Q->length && a[0] != a[1]);
  mzp_t *R = L->mzp_copy(P, Q);
  if (!P) c->p[a[0]] = R;
  return OP_OK;
}
static int op_mzp_window(ctx_t *c, const long *a) { /* P begin end : create and free a window, record its length */
  mzp_t *P = PERM(a[0]);
  REQ(P && a[1] >= 0 && a[2] >= a[1] && a[2] <= P->length);
  mzp_t *W = L->mzp_init_window(P, (rci_t)a[1], (rci_t)a[2]);
  push_ret(c, W->length);
  L->mzp_free_window(W);
  return OP_OK;
}
static int op_col_swap(ctx_t *c, const long *a) { mzd_t *A = MAT(a[0]); REQ(A && a[1] >= 0 && a[2] >= 0 && a[1] < A->ncols && a[2] < A->ncols && A->nrows > 0); L->m4shim_col_swap(A, (rci_t)a[1], (rci_t)a[2]); return OP_OK; }
static int op_row_swap(ctx_t *c, const long *a) { mzd_t *A = MAT(a[0]); REQ(A && a[1] >= 0 && a[2] >= 0 && a[1] < A->nrows && a[2] < A->nrows && A->ncols > 0); L->m4shim_row_swap(A, (rci_t)a[1], (rci_t)a[2]); return OP_OK; }
static int op_row_add(ctx_t *c, const long *a) { mzd_t *A = MAT(a[0]); REQ(A && a[1] >= 0 && a[2] >= 0 && a[1] < A->nrows && a[2] < A->nrows && a[1] != a[2] && a[3] >= 0 && a[3] < A->ncols); L->m4shim_row_add_offset(A, (rci_t)a[1], (rci_t)a[2], (rci_t)a[3]); return OP_OK; }
/* ---- smaller public entry points (row/bit level, statistics, printing) ---- */
static int owned_reg(ctx_t *c, long r) { return ISREG(r) && c->m[r] && c->parent[r] < 0 && !c->hid[r]; }
static int op_row_add_full(ctx_t *c, const long *a) { /* A src dst */
  mzd_t *A = MAT(a[0]);
  REQ(A && A->ncols > 0 && a[1] >= 0 && a[2] >= 0 && a[1] < A->nrows && a[2] < A->nrows && a[1] != a[2]);
  L->mzd_row_add(A, (rci_t)a[1], (rci_t)a[2]);
  return OP_OK;
}
static int op_copy_row(ctx_t *c, const long *a) { /* B i A j */
  mzd_t *B = MAT(a[0]), *A = MAT(a[2]);
  REQ(A && B && A->ncols > 0 && B->ncols >= A->ncols && a[1] >= 0 && a[1] < B->nrows && a[3] >= 0 && a[3] < A->nrows);
  REQ(!overlaps_reg(c, a[0], a[2]) || a[1] != a[3]);
  L->mzd_copy_row(B, (rci_t)a[1], A, (rci_t)a[3]);
  return OP_OK;
}
static int op_col_swap_rows(ctx_t *c, const long *a) { /* A cola colb r0 r1 */
  mzd_t *A = MAT(a[0]);
  REQ(A && a[1] >= 0 && a[2] >= 0 && a[1] < A->ncols && a[2] < A->ncols && a[3] >= 0 && a[3] < a[4] && a[4] <= A->nrows);
  L->m4shim_col_swap_in_rows(A, (rci_t)a[1], (rci_t)a[2], (rci_t)a[3], (rci_t)a[4]);
  return OP_OK;
}
static int op_gauss(ctx_t *c, const long *a) { /* A startcol full */
  mzd_t *A = MAT(a[0]);
  REQ(A && A->nrows > 0 && A->ncols > 0 && a[1] >= 0 && a[1] <= A->ncols && a[1] <= A->nrows);
  push_ret(c, L->mzd_gauss_delayed(A, (rci_t)a[1], a[2] != 0));
  return OP_OK;
}
static int op_density(ctx_t *c, const long *a) { /* A res r c sub */
  mzd_t *A = MAT(a[0]);
  REQ(A && A->nrows > 0 && A->ncols > 0 && a[1] >= 0 && a[2] >= 0 && a[2] < A->nrows && a[3] >= 0 && a[3] < A->ncols);
  double d = a[4] ? L->_mzd_density(A, (wi_t)a[1], (rci_t)a[2], (rci_t)a[3]) : L->mzd_density(A, (wi_t)a[1]);
  push_ret(c, (long)(d * 1e12));
  return OP_OK;
}
static int op_find_pivot(ctx_t *c, const long *a) { /* A r c */
  mzd_t *A = MAT(a[0]);
  REQ(A && A->nrows > 0 && A->ncols > 0 && a[1] >= 0 && a[1] < A->nrows && a[2] >= 0 && a[2] < A->ncols);
  rci_t r = -7, cc = -7;
  int f = L->mzd_find_pivot(A, (rci_t)a[1], (rci_t)a[2], &r, &cc);
  push_ret(c, f);
  if (f) { push_ret(c, r); push_ret(c, cc); }
  return OP_OK;
}
static word rc_cb(void *d) { uint64_t *s = (uint64_t *)d; *s += 0x9e3779b97f4a7c15ULL; return (word)sm64_mix(*s); }
static int op_randomize_custom(ctx_t *c, const long *a) { /* A seed */
  mzd_t *A = MAT(a[0]);
  REQ(A && A->nrows > 0 && A->ncols > 0);
  uint64_t s = (uint64_t)a[1];
  L->mzd_randomize_custom(A, rc_cb, &s);
  return OP_OK;
}
static int op_row_clear_offset(ctx_t *c, const long *a) { /* A row coloffset ; owner matrices only: the call clears whole trailing words */
  mzd_t *A = MAT(a[0]);
  REQ(A && owned_reg(c, a[0]) && c->nwin[a[0]] == 0 && a[1] >= 0 && a[1] < A->nrows && a[2] >= 0 && a[2] < A->ncols);
  L->mzd_row_clear_offset(A, (rci_t)a[1], (rci_t)a[2]);
  return OP_OK;
}
static int op_bits(ctx_t *c, const long *a) { /* A x y n kind v */
  mzd_t *A = MAT(a[0]);
  REQ(A && a[1] >= 0 && a[1] < A->nrows && a[2] >= 0 && a[3] >= 1 && a[3] <= 64 && a[2] + a[3] <= A->ncols && a[4] >= 0 && a[4] <= 4);
  int n = (int)a[3];
  word v = (word)sm64_mix((uint64_t)a[5]);
  word lo = n == 64 ? v : (v & ((m4ri_one << n) - 1));
  switch (a[4]) {
  case 0: { word w = L->m4shim_read_bits(A, (rci_t)a[1], (rci_t)a[2], n); push_ret(c, (long)(w >> 32)); push_ret(c, (long)(w & 0xffffffffu)); break; }
  case 1: push_ret(c, L->m4shim_read_bits_int(A, (rci_t)a[1], (rci_t)a[2], n > 31 ? 31 : n)); break;
  case 2: L->m4shim_xor_bits(A, (rci_t)a[1], (rci_t)a[2], n, lo); break;
  case 3: REQ(owned_reg(c, a[0]) && c->nwin[a[0]] == 0); L->m4shim_and_bits(A, (rci_t)a[1], (rci_t)a[2], n, v); break; /* clears the rest of the word(s) it touches */
  case 4: L->m4shim_clear_bits(A, (rci_t)a[1], (rci_t)a[2], n); break;
  }
  return OP_OK;
}
static int op_combine(ctx_t *c, const long *a) { /* C cr A ar B br startblock ; C[cr, sb..] = A[ar, sb..] + B[br, sb..] */
  mzd_t *C = MAT(a[0]), *A = MAT(a[2]), *B = MAT(a[4]);
  REQ(A && B && C && A->ncols > 0 && A->ncols == B->ncols && A->ncols == C->ncols);
  REQ(a[1] >= 0 && a[1] < C->nrows && a[3] >= 0 && a[3] < A->nrows && a[5] >= 0 && a[5] < B->nrows && a[6] >= 0 && a[6] < A->width);
  L->m4shim_combine(C, (rci_t)a[1], (wi_t)a[6], A, (rci_t)a[3], (wi_t)a[6], B, (rci_t)a[5], (wi_t)a[6]);
  return OP_OK;
}
static int op_m4rm_step(ctx_t *c, const long *a) { /* A r col k : Gray code table of rows r..r+k-1 from column col, applied to all other rows */
  mzd_t *A = MAT(a[0]);
  REQ(A && A->nrows > 0 && A->ncols > 0 && a[3] >= 1 && a[3] <= 8 && a[1] >= 0 && a[1] < A->nrows && a[2] >= 0 && a[2] + a[3] <= A->ncols);
  int k = (int)a[3];
  mzd_t *T = L->mzd_init(1 << k, A->ncols);
  rci_t Lt[256]; /* on the caller's (simulated thread's) stack: harness heap memory is invisible to the access monitor's free/alloc bookkeeping */
  for (int i = 0; i < (1 << k); i++) Lt[i] = 0;
  L->mzd_make_table(A, (rci_t)a[1], (rci_t)a[2], k, T, Lt);
  L->mzd_process_rows(A, 0, (rci_t)a[1], (rci_t)a[2], k, T, Lt);
  if (a[1] + k < A->nrows) L->mzd_process_rows(A, (rci_t)(a[1] + k), A->nrows, (rci_t)a[2], k, T, Lt);
  push_ret(c, (long)mat_hash(T, FNV0) & 0x7fffffff);
  if (mat_padding_dirty(T)) c->pad_violation = (int)a[0];
  L->mzd_free(T);
  return OP_OK;
}
static int op_trtri_russian(ctx_t *c, const long *a) { /* A k */
  mzd_t *A = MAT(a[0]);
  REQ(A && A->nrows == A->ncols && A->nrows > 0 && a[1] >= 0 && a[1] <= 8);
  REQ(is_unit_upper(A));
  L->mzd_trtri_upper_russian(A, (int)a[1]);
  return OP_OK;
}
static int op_hash(ctx_t *c, const long *a) { /* A */
  mzd_t *A = MAT(a[0]);
  REQ(A && A->nrows > 0 && A->ncols > 0);
  word w = L->m4shim_hash(A);
  push_ret(c, (long)(w >> 32)); push_ret(c, (long)(w & 0xffffffffu));
  return OP_OK;
}
static int op_fprint(ctx_t *c, const long *a) { /* A : text form through a memory stream of the harness */
  mzd_t *A = MAT(a[0]);
  REQ(A && A->nrows > 0 && A->ncols > 0);
  char *buf = NULL; size_t len = 0;
  FILE *f = open_memstream(&buf, &len);
  REQ(f != NULL);
  L->m4shim_fprint(f, A);
  fclose(f);
  push_ret(c, (long)(fnv1a(buf, len, FNV0) & 0x7fffffffffffffffULL));
  push_ret(c, (long)len);
  free(buf);
  return OP_OK;
}
static int op_info(ctx_t *c, const long *a) { /* A do_rank : prints to stdout (discarded); runs density, hash and a rank computation on a copy */
  mzd_t *A = MAT(a[0]);
  REQ(A && A->nrows > 0 && A->ncols > 0);
  L->mzd_info(A, a[1] != 0);
  return OP_OK;
}
static int op_mzp_set_ui(ctx_t *c, const long *a) { mzp_t *P = PERM(a[0]); REQ(P); L->mzp_set_ui(P, (unsigned)a[1]); return OP_OK; }
/* ---- I/O (through the simulated file layer) ---- */
static const char *fname(long i, char *buf) { snprintf(buf, 32, "/sim/f%ld", i); return buf; }
static int op_to_png(ctx_t *c, const long *a) { /* A file level commentkind */
  mzd_t *A = MAT(a[0]);
  char fn[32];
  REQ(A && A->nrows > 0 && A->ncols > 0 && a[1] >= 0 && a[1] < NFILE && a[2] >= -1 && a[2] <= 9);
  const char *cm = a[3] == 0 ? NULL : a[3] == 1 ? "" : "m4sim: a comment with some length to it";
  push_ret(c, L->mzd_to_png(A, fname(a[1], fn), (int)a[2], cm, 0));
  return OP_OK;
}
static int op_from_png(ctx_t *c, const long *a) { /* R file */
  char fn[32];
  REQ(ISREG(a[0]) && !c->m[a[0]] && a[1] >= 0 && a[1] < NFILE);
  mzd_t *R = L->mzd_from_png(fname(a[1], fn), 0);
  push_ret(c, R != NULL);
  if (R) set_result(c, a[0], R);
  return OP_OK;
}
static int op_from_jcf(ctx_t *c, const long *a) {
  char fn[32];
  REQ(ISREG(a[0]) && !c->m[a[0]] && a[1] >= 0 && a[1] < NFILE);
  mzd_t *R = L->mzd_from_jcf(fname(a[1], fn), 0);
  push_ret(c, R != NULL);
  if (R) set_result(c, a[0], R);
  return OP_OK;
}
static int op_from_str(ctx_t *c, const long *a) { /* R m n seed */
  REQ(ISREG(a[0]) && !c->m[a[0]] && a[1] > 0 && a[2] > 0 && a[1] * a[2] <= 1 << 20);
  size_t n = (size_t)(a[1] * a[2]);
  char *s = (char *)malloc(n + 1);
  rng_t r = rng_make((uint64_t)a[3] ^ 0x737472ULL);
  for (size_t i = 0; i < n; i++) s[i] = (rng_u64(&r) & 1) ? '1' : '0';
  s[n] = 0;
  mzd_t *R = L->mzd_from_str((rci_t)a[1], (rci_t)a[2], s);
  free(s);
  set_result(c, a[0], R);
  return OP_OK;
}
static int op_jcf_file(ctx_t *c, const long *a) { /* file m n nnz seed : harness writes a valid JCF text file */
  (void)c;
  REQ(a[0] >= 0 && a[0] < NFILE && a[1] > 0 && a[2] > 0 && a[3] >= 0);
  sbuf_t b = { 0 };
  rng_t r = rng_make((uint64_t)a[4] ^ 0x6a6366ULL);
  sb_printf(&b, "%ld %ld 2\n%ld\n\n", a[1], a[2], a[3]);
  long per = a[3] / a[1] + 1, left = a[3];
  for (long i = 0; i < a[1]; i++) {
    int first = 1;
    long k = (long)rng_below(&r, (uint64_t)per * 2 + 1);
    if (k == 0) k = 1; /* every row has a (negative) first entry: the format advances rows on them */
    for (long t = 0; t < k && (left > 0 || first); t++) {
      long j = 1 + (long)rng_below(&r, (uint64_t)a[2]);
      sb_printf(&b, "%ld\n", first ? -j : j);
      first = 0; left--;
    }
  }
  char fn[32];
  simfs_put(fname(a[0], fn), b.s, b.n);
  free(b.s);
  return OP_OK;
}
static int op_reinit(ctx_t *c, const long *a) { /* m4ri_fini(); m4ri_init(): only when nothing is live */
  (void)a;
  for (int i = 0; i < NREG; i++) REQ(!c->m[i]);
  L->m4ri_fini();
  L->m4ri_init();
  return OP_OK;
}
static int op_window_cycle(ctx_t *c, const long *a) { /* M r0 c0w r1 c1 : create a window, read it, free it */
  mzd_t *M = MAT(a[0]);
  REQ(M && M->nrows > 0 && M->ncols > 0 && a[1] >= 0 && a[2] >= 0 && a[3] > a[1] && a[3] <= M->nrows && a[2] * 64 < M->ncols && a[4] > a[2] * 64 && a[4] <= M->ncols);
  mzd_t *W = L->mzd_init_window(M, (rci_t)a[1], (rci_t)(a[2] * 64), (rci_t)a[3], (rci_t)a[4]);
  uint64_t h = mat_hash(W, FNV0);
  push_ret(c, (long)(h & 0x7fffffff));
  L->mzd_free(W);
  return OP_OK;
}
static int op_window_burst(ctx_t *c, const long *a) { /* M count : `count` simultaneously live windows on M (header pool growth / fallback), then all freed */
  mzd_t *M = MAT(a[0]);
  REQ(M && M->nrows > 0 && M->ncols > 0 && a[1] >= 1 && a[1] <= 1200);
  mzd_t **W = (mzd_t **)malloc(sizeof(mzd_t *) * (size_t)a[1]);
  uint64_t h = FNV0;
  for (long i = 0; i < a[1]; i++) {
    rci_t r0 = (rci_t)(i % M->nrows);
    W[i] = L->mzd_init_window(M, r0, 0, M->nrows, M->ncols);
  }
  for (long i = 0; i < a[1]; i += 7) h = mat_hash(W[i], h);
  push_ret(c, (long)(h & 0x7fffffff));
  /* free in an order that is neither LIFO nor FIFO */
  for (long i = 0; i < a[1]; i += 2) L->mzd_free(W[i]);
  for (long i = 1; i < a[1]; i += 2) L->mzd_free(W[i]);
  free(W);
  return OP_OK;
}
#undef L

const opdesc_t op_table[] = {
  { "mul_naive", op_mul_naive, 3, "C A B" },
  { "addmul_naive", op_addmul_naive, 3, "C A B" },
  { "mul_va", op_mul_va, 3, "C A B" },
  { "mul_naive_t", op_mul_naive_t, 4, "C A BT clear" },
  { "mul_m4rm", op_mul_m4rm, 4, "C A B k" },
  { "addmul_m4rm", op_addmul_m4rm, 4, "C A B k" },
  { "mul", op_mul, 4, "C A B cutoff" },
  { "addmul", op_addmul, 4, "C A B cutoff" },
  { "mul_mp", op_mul_mp, 4, "C A B cutoff" },
  { "addmul_mp", op_addmul_mp, 4, "C A B cutoff" },
  { "sqr", op_sqr, 3, "C A cutoff" },
  { "addsqr", op_addsqr, 3, "C A cutoff" },
  { "djb", op_djb, 4, "C A B mode" },
  { "ech_naive", op_ech_naive, 2, "A full" },
  { "ech_m4ri", op_ech_m4ri, 3, "A full k" },
  { "ech_pluq", op_ech_pluq, 2, "A full" },
  { "ech", op_ech, 2, "A full" },
  { "top_ech", op_top_ech, 2, "A k" },
  { "ple", op_ple, 4, "A P Q cutoff" },
  { "pluq", op_pluq, 4, "A P Q cutoff" },
  { "ple_naive", op_ple_naive, 4, "A P Q 0" },
  { "pluq_naive", op_pluq_naive, 4, "A P Q 0" },
  { "ple_russian", op_ple_russian, 4, "A P Q k" },
  { "pluq_russian", op_pluq_russian, 4, "A P Q k" },
  { "trsm_ul", op_trsm_ul, 3, "U B cutoff" },
  { "trsm_ll", op_trsm_ll, 3, "L B cutoff" },
  { "trsm_ur", op_trsm_ur, 3, "U B cutoff" },
  { "trsm_lr", op_trsm_lr, 3, "L B cutoff" },
  { "trtri", op_trtri, 1, "A" },
  { "inv_m4ri", op_inv_m4ri, 3, "D A k" },
  { "invert_naive", op_invert_naive, 2, "D A" },
  { "solve", op_solve, 3, "A B cutoff" },
  { "pluq_solve", op_pluq_solve, 3, "A B cutoff" },
  { "kernel", op_kernel, 3, "K A cutoff" },
  { "add", op_add, 3, "C A B" },
  { "transpose", op_transpose, 2, "D A" },
  { "copy", op_copy, 2, "D A" },
  { "submatrix", op_submatrix, 6, "S M lowr lowc highr highc" },
  { "concat", op_concat, 3, "C A B" },
  { "stack", op_stack, 3, "C A B" },
  { "extract_u", op_extract_u, 2, "U A" },
  { "extract_l", op_extract_l, 2, "L A" },
  { "set_ui", op_set_ui, 2, "A v" },
  { "cmp", op_cmp, 2, "A B" },
  { "ap_left", op_ap_l, 2, "A P" },
  { "ap_left_trans", op_ap_lt, 2, "A P" },
  { "ap_right", op_ap_r, 2, "A P" },
  { "ap_right_trans", op_ap_rt, 2, "A P" },
  { "ap_right_trans_tri", op_ap_rtt, 2, "A P" },
  { "ap_capped", op_ap_capped, 5, "A P start_row start_col trans" },
  { "mzp_copy", op_mzp_copy, 2, "P Q" },
  { "mzp_window", op_mzp_window, 3, "P begin end" },
  { "col_swap", op_col_swap, 3, "A i j" },
  { "row_swap", op_row_swap, 3, "A i j" },
  { "row_add", op_row_add, 4, "A dst src coloffset" },
  { "row_add_full", op_row_add_full, 3, "A src dst" },
  { "copy_row", op_copy_row, 4, "B i A j" },
  { "col_swap_rows", op_col_swap_rows, 5, "A cola colb r0 r1" },
  { "gauss", op_gauss, 3, "A startcol full" },
  { "density", op_density, 5, "A res r c sub" },
  { "find_pivot", op_find_pivot, 3, "A r c" },
  { "randomize_custom", op_randomize_custom, 2, "A seed" },
  { "row_clear_offset", op_row_clear_offset, 3, "A row coloffset" },
  { "bits", op_bits, 6, "A x y n kind v" },
  { "combine", op_combine, 7, "C cr A ar B br startblock" },
  { "m4rm_step", op_m4rm_step, 4, "A r col k" },
  { "trtri_russian", op_trtri_russian, 2, "A k" },
  { "hash", op_hash, 1, "A" },
  { "fprint", op_fprint, 1, "A" },
  { "info", op_info, 2, "A do_rank" },
  { "mzp_set_ui", op_mzp_set_ui, 2, "P v" },
  { "to_png", op_to_png, 4, "A file level comment" },
  { "from_png", op_from_png, 2, "R file" },
  { "from_jcf", op_from_jcf, 2, "R file" },
  { "from_str", op_from_str, 4, "R m n seed" },
  { "jcf_file", op_jcf_file, 5, "file m n nnz seed" },
  { "reinit", op_reinit, 0, "" },
  { "window_cycle", op_window_cycle, 5, "M r0 c0w r1 c1" },
  { "window_burst", op_window_burst, 2, "M count" },
};
const int op_count = sizeof op_table / sizeof op_table[0];
const opdesc_t *op_find(const char *name) {
  for (int i = 0; i < op_count; i++) if (!strcmp(op_table[i].name, name)) return &op_table[i];
  return NULL;
}

/* ---------- program lines ---------- */
int prog_exec_line(ctx_t *c, const char *line) {
  char w[12][48];
  int n = sscanf(line, "%47s %47s %47s %47s %47s %47s %47s %47s %47s %47s %47s %47s", w[0], w[1], w[2], w[3], w[4], w[5], w[6], w[7], w[8], w[9], w[10], w[11]);
  if (n <= 0 || w[0][0] == '#') return 0;
  const lib_t *Lb = c->L;
  if (!strcmp(w[0], "knobs")) {
    if (n < 4) return -1;
    long a = atol(w[1]), b = atol(w[2]), d = atol(w[3]);
    if (a < 1024 || b < a || d < b) { c->skipped = 1; return 1; }
    m4sim_l1 = (int)a; m4sim_l2 = (int)b; m4sim_l3 = (int)d;
    return 0;
  }
  if (!strcmp(w[0], "lib")) {
    if (n < 2) return -1;
    const lib_t *nl = lib_by_name(w[1]);
    if (!nl) { c->skipped = 1; snprintf(c->skipwhy, sizeof c->skipwhy, "no lib %s", w[1]); return 1; }
    c->L = nl;
    return 0;
  }
  if (!strcmp(w[0], "mat")) { /* mat R m n GEN p seed */
    if (n < 7) return -1;
    long r = atol(w[1]), m = atol(w[2]), nn = atol(w[3]);
    if (!ISREG(r) || c->m[r] || m < 0 || nn < 0 || m > 70000 || nn > 70000 || (double)m * (double)nn > 3.0e8) { c->skipped = 1; return 1; }
    c->m[r] = Lb->mzd_init((rci_t)m, (rci_t)nn);
    c->parent[r] = -1;
    gen_fill(c->m[r], w[4], atol(w[5]), strtoull(w[6], NULL, 10));
    return 0;
  }
  if (!strcmp(w[0], "wmat")) { /* wmat R m n GEN p seed r0 c0w er ec : operand that is a window into a larger, junk filled owner */
    if (n < 11) return -1;
    long r = atol(w[1]), m = atol(w[2]), nn = atol(w[3]), r0 = atol(w[7]), c0w = atol(w[8]), er = atol(w[9]), ec = atol(w[10]);
    if (!ISREG(r) || c->m[r] || m < 1 || nn < 1 || m > 70000 || nn > 70000 || (double)m * (double)nn > 3.0e8 || r0 < 0 || c0w < 0 || er < 0 || ec < 0 || r0 > 64 || c0w > 8 || er > 64 || ec > 200) { c->skipped = 1; return 1; }
    mzd_t *P = Lb->mzd_init((rci_t)(m + r0 + er), (rci_t)(c0w * 64 + nn + ec));
    if (gen_world_seed || !gen_fresh_world_has_zero_surroundings) gen_fill(P, "rand", 128, strtoull(w[6], NULL, 10) ^ 0x77696e646f77ULL ^ sm64_mix(gen_world_seed)); /* the fresh world (seed 0) keeps the zero parent: an outcome that uses the surroundings at all then differs between worlds, even when every non-zero surrounding would give the same (wrong) answer */ /* what surrounds the view is no operand value: it differs from world to world (the fresh world has gen_world_seed 0) */
    c->hid[r] = P;
    c->m[r] = Lb->mzd_init_window(P, (rci_t)r0, (rci_t)(c0w * 64), (rci_t)(r0 + m), (rci_t)(c0w * 64 + nn));
    c->parent[r] = NREG + (int)r;
    gen_fill(c->m[r], w[4], atol(w[5]), strtoull(w[6], NULL, 10));
    return 0;
  }
  if (!strcmp(w[0], "fill")) { /* fill R GEN p seed : overwrite content (also of windows; keeps excess bits) */
    if (n < 5) return -1;
    long r = atol(w[1]);
    if (!ISREG(r) || !c->m[r]) { c->skipped = 1; return 1; }
    gen_fill(c->m[r], w[2], atol(w[3]), strtoull(w[4], NULL, 10));
    return 0;
  }
  if (!strcmp(w[0], "win")) { /* win R PARENT r0 c0words r1 c1 */
    if (n < 7) return -1;
    long r = atol(w[1]), p = atol(w[2]), r0 = atol(w[3]), c0 = atol(w[4]), r1 = atol(w[5]), c1 = atol(w[6]);
    if (!ISREG(r) || c->m[r] || !ISREG(p) || !c->m[p]) { c->skipped = 1; return 1; }
    mzd_t *P = c->m[p];
    if (r0 < 0 || c0 < 0 || r1 < r0 || r1 > P->nrows || c0 * 64 > P->ncols || c1 < c0 * 64 || c1 > P->ncols) { c->skipped = 1; return 1; }
    c->m[r] = Lb->mzd_init_window(P, (rci_t)r0, (rci_t)(c0 * 64), (rci_t)r1, (rci_t)c1);
    c->parent[r] = (int)p; c->nwin[p]++;
    return 0;
  }
  if (!strcmp(w[0], "perm")) { /* perm P len GEN seed */
    if (n < 5) return -1;
    long r = atol(w[1]), len = atol(w[2]);
    if (!ISP(r) || c->p[r] || len < 0 || len > 70000) { c->skipped = 1; return 1; }
    c->p[r] = Lb->mzp_init((rci_t)len);
    gen_perm(c->p[r], w[3], strtoull(w[4], NULL, 10), (rci_t)len);
    return 0;
  }
  if (!strcmp(w[0], "free")) {
    if (n < 2) return -1;
    long r = atol(w[1]);
    if (!ISREG(r) || !c->m[r] || c->nwin[r] > 0) { c->skipped = 1; return 1; }
    reg_free(c, (int)r);
    return 0;
  }
  if (!strcmp(w[0], "freeall")) { ctx_free_all(c); return 0; }
  if (!strcmp(w[0], "pfree")) {
    if (n < 2) return -1;
    long r = atol(w[1]);
    if (!ISP(r) || !c->p[r]) { c->skipped = 1; return 1; }
    Lb->mzp_free(c->p[r]); c->p[r] = NULL;
    return 0;
  }
  if (!strcmp(w[0], "op")) {
    if (n < 2) return -1;
    const opdesc_t *d = op_find(w[1]);
    if (!d) return -1;
    long a[8] = { -1, -1, -1, -1, -1, -1, -1, -1 };
    if (n - 2 < d->nargs) { c->skipped = 1; return 1; }
    for (int i = 0; i < d->nargs && i < 8; i++) a[i] = atol(w[2 + i]);
    c->nops++;
    int rc = d->fn(c, a);
    return rc == OP_OK ? 0 : 1;
  }
  return 2; /* not ours: engine specific directive */
}

int prog_exec(ctx_t *c, const char *text, prog_cb cb, void *ud) {
  const char *p = text;
  int lineno = 0;
  char line[512];
  while (*p) {
    const char *e = strchr(p, '\n');
    size_t len = e ? (size_t)(e - p) : strlen(p);
    if (len >= sizeof line) len = sizeof line - 1;
    memcpy(line, p, len);
    line[len] = 0;
    p = e ? e + 1 : p + len;
    lineno++;
    int rc = prog_exec_line(c, line);
    if (rc == 1 || rc < 0) return rc;
    if (cb) { int x = cb(c, lineno, line, ud); if (x) return x; }
  }
  return 0;
}
