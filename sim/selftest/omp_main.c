/* driver of the runtime self-test (harness code, not instrumented) */
#include "sched.h"
#include <stdio.h>
#include <stdlib.h>
long k_barrier(void), k_dynamic(void), k_for_in_region(void), k_single_atomic_critical(void), k_sections_in_region(void), k_locks(void), k_tasks(void), k_racy_counter(void), k_racy_nowait(void), k_tls(void), k_pthread(void);
#define N 2000
typedef struct { const char *name; long (*fn)(void); int racy; } kern_t;
static kern_t K[] = { { "barrier", k_barrier, 0 }, { "dynamic", k_dynamic, 0 }, { "for_in_region", k_for_in_region, 0 }, { "single_atomic_critical", k_single_atomic_critical, 0 },
                      { "sections_in_region", k_sections_in_region, 0 }, { "locks", k_locks, 0 }, { "tasks", k_tasks, 0 }, { "racy_counter", k_racy_counter, 1 }, { "racy_nowait", k_racy_nowait, 1 }, { "tls", k_tls, 0 }, { "pthread", k_pthread, 0 } };
int main(int argc, char **argv) {
  int nseeds = argc > 1 ? atoi(argv[1]) : 40, fails = 0, racy_seen[2] = { 0, 0 }, racy_runs[2] = { 0, 0 };
  unsigned long long nbar = 0, nchunk = 0, nsw = 0;
  sim_shared_init();
  for (int s = 0; s < nseeds; s++) {
    for (unsigned k = 0; k < sizeof K / sizeof K[0]; k++) {
      sched_cfg_t c;
      memset(&c, 0, sizeof c);
      c.seed = 1000u * (unsigned)s + k; c.mode = 1 + s % 2; c.team_size = 1 + (s * 7 + (int)k) % 16; c.monitor = 1; c.nested = s & 1;
      c.logp[YC_ACCESS] = 3 + s % 5; c.logp[YC_RUNTIME] = 1; c.logp[YC_CRITICAL] = 1; c.logp[YC_HEAP] = 1; c.pct_d = 3; c.pct_events = 20000; c.event_budget = 50000000;
      sched_reset(&c);
      sched_enable(1);
      long r = K[k].fn();
      sched_enable(0);
      nbar += sched_stats.barriers; nchunk += sched_stats.ws_chunks; nsw += sched_stats.switches;
      int team = c.team_size;
      long want = 0;
      switch (k) {
      case 0: want = 0; break;
      case 1: want = (long)N * N; break;
      case 2: want = 3L * N * (N - 1) / 2; break;
      case 3: want = 1000001; break;
      case 4: want = 6; break;
      case 5: want = 5L * team; break;
      case 6: want = 55; break;
      case 9: want = 160L * team * (team + 1) / 2; break;
      case 10: want = 35L * 4 * team * 10 + 1; break;
      default: want = -1;
      }
      if (!K[k].racy) {
        if (r != want) { printf("FAIL %s seed=%d team=%d: result %ld, expected %ld\n", K[k].name, s, team, r, want); fails++; }
        if (sched_nraces) { printf("FAIL %s seed=%d team=%d: %d conflicting accesses reported on race-free code\n", K[k].name, s, team, sched_nraces); fails++; }
      } else if (team > 1) {
        racy_runs[k - 7]++;
        if (sched_nraces) racy_seen[k - 7]++;
      }
    }
  }
  for (int i = 0; i < 2; i++) if (racy_runs[i] && racy_seen[i] != racy_runs[i]) { printf("FAIL racy kernel %d: flagged in %d of %d runs with a team > 1\n", i, racy_seen[i], racy_runs[i]); fails++; }
  printf("selftest_omp: %d seeds x %zu kernels, %llu barrier passages, %llu loop chunks handed out, %llu context switches, %s\n", nseeds, sizeof K / sizeof K[0], nbar, nchunk, nsw, fails ? "FAILED" : "ok");
  return fails ? 1 : 0;
}
