/* Self-test of the simulated OpenMP runtime and of the access monitor: small OpenMP kernels with known answers.
 * Compiled with -fopenmp -fsanitize=thread (callbacks only, no TSan runtime), like the `mon` flavour of the library.
 * Each kernel is CORRECT OpenMP (except the two marked RACY): the monitor must stay silent, the result must be exact for
 * every seed / team size; the racy ones must be reported. */
#include <omp.h>
#include <pthread.h>
#include <stdint.h>
#include <string.h>

#define N 2000
long st_a[N], st_b[N];
long st_sum, st_hits, st_single, st_sect[8], st_phase[16], st_lockcnt, st_taskacc, st_racy;
static omp_lock_t st_lock;

long k_barrier(void) { /* phase 1 writes own slot, barrier, phase 2 reads neighbour's slot */
  long bad = 0;
  memset(st_phase, 0, sizeof st_phase);
#pragma omp parallel reduction(+ : bad)
  {
    int t = omp_get_thread_num(), n = omp_get_num_threads();
    st_phase[t] = 100 + t;
#pragma omp barrier
    if (st_phase[(t + 1) % n] != 100 + (t + 1) % n) bad++;
#pragma omp barrier
    st_phase[t] = 200 + t;
#pragma omp barrier
    if (st_phase[(t + n - 1) % n] != 200 + (t + n - 1) % n) bad++;
  }
  return bad;
}
long k_dynamic(void) { /* run-time scheduled loop, disjoint writes, then a reduction */
  long s = 0;
  for (int i = 0; i < N; i++) st_a[i] = i;
#pragma omp parallel for schedule(dynamic, 7)
  for (int i = 0; i < N; i++) st_b[i] = 2 * st_a[i] + 1;
#pragma omp parallel for schedule(guided) reduction(+ : s)
  for (int i = 0; i < N; i++) s += st_b[i];
  return s; /* N*N */
}
long k_for_in_region(void) { /* two work-sharing loops inside one region, the second reads what the first wrote (implicit barrier) */
  long s = 0;
#pragma omp parallel
  {
#pragma omp for schedule(dynamic, 3)
    for (int i = 0; i < N; i++) st_a[i] = 3 * i;
#pragma omp for schedule(static, 16) reduction(+ : s)
    for (int i = 0; i < N; i++) s += st_a[N - 1 - i];
  }
  return s; /* 3*N*(N-1)/2 */
}
long k_single_atomic_critical(void) {
  st_single = 0; st_hits = 0; st_sum = 0;
#pragma omp parallel
  {
#pragma omp single
    st_single++;
#pragma omp atomic
    st_hits++;
#pragma omp critical(selftest)
    st_sum += 10;
  }
  return st_single * 1000000 + (st_hits == st_sum / 10 ? 1 : 0);
}
long k_sections_in_region(void) {
  memset(st_sect, 0, sizeof st_sect);
#pragma omp parallel
  {
#pragma omp sections
    {
#pragma omp section
      st_sect[0] = 1;
#pragma omp section
      st_sect[1] = 2;
#pragma omp section
      st_sect[2] = 3;
    }
    /* implicit barrier: everybody may read now */
    if (st_sect[0] + st_sect[1] + st_sect[2] != 6) st_sect[7] = 1;
  }
  return st_sect[0] + st_sect[1] + st_sect[2] + 100 * st_sect[7];
}
long k_locks(void) {
  st_lockcnt = 0;
  omp_init_lock(&st_lock);
#pragma omp parallel
  {
    for (int i = 0; i < 5; i++) { omp_set_lock(&st_lock); st_lockcnt++; omp_unset_lock(&st_lock); }
  }
  omp_destroy_lock(&st_lock);
  return st_lockcnt; /* 5 * team */
}
long k_tasks(void) {
  st_taskacc = 0;
#pragma omp parallel
  {
#pragma omp single
    {
      for (int i = 1; i <= 10; i++) {
#pragma omp task firstprivate(i)
        {
#pragma omp atomic
          st_taskacc += i;
        }
      }
#pragma omp taskwait
    }
  }
  return st_taskacc; /* 55 */
}
long k_racy_counter(void) { /* RACY: unsynchronised increments */
  st_racy = 0;
#pragma omp parallel
  { st_racy++; }
  return st_racy;
}
long k_racy_nowait(void) { /* RACY: the second loop reads what the first writes, but the first has nowait */
  long s = 0;
#pragma omp parallel
  {
#pragma omp for schedule(static, 1) nowait
    for (int i = 0; i < 64; i++) st_a[i] = i;
#pragma omp for schedule(static, 1) reduction(+ : s)
    for (int i = 0; i < 64; i++) s += st_a[63 - i];
  }
  return s;
}

/* thread-local scratch: correct, must not be reported (each simulated thread has its own copy of the TLS block) */
static __thread long tl_scratch[8];
static long tp_counter;
#pragma omp threadprivate(tp_counter)
long st_tlsum;
long k_tls(void) {
  st_tlsum = 0;
#pragma omp parallel
  {
    int t = omp_get_thread_num();
    for (int i = 0; i < 8; i++) tl_scratch[i] = 0;   /* a fresh thread sees the initial image; the master keeps its own */
    tp_counter = 0;
    for (int r = 0; r < 20; r++) { for (int i = 0; i < 8; i++) tl_scratch[i] += t + 1; tp_counter += 1; }
    long s = 0;
    for (int i = 0; i < 8; i++) s += tl_scratch[i];
    if (s != 160L * (t + 1) || tp_counter != 20) s = -1000000;
#pragma omp atomic
    st_tlsum += s;
  }
  return st_tlsum; /* 160 * n(n+1)/2 */
}
/* pthread mutex and once: correct, must not be reported */
static pthread_mutex_t st_mtx = PTHREAD_MUTEX_INITIALIZER;
static pthread_once_t st_once = PTHREAD_ONCE_INIT;
static long st_once_runs, st_mtxcnt, st_table[16];
static void st_once_fn(void) { st_once_runs++; for (int i = 0; i < 16; i++) st_table[i] = 7 * i; }
long k_pthread(void) {
  st_mtxcnt = 0;
#pragma omp parallel
  {
    pthread_once(&st_once, st_once_fn);
    long v = st_table[5]; /* read after once: ordered */
    for (int i = 0; i < 4; i++) { pthread_mutex_lock(&st_mtx); st_mtxcnt += v; pthread_mutex_unlock(&st_mtx); }
  }
  return st_mtxcnt * 10 + st_once_runs; /* 35*4*n*10 + 1 */
}
