#!/usr/bin/env python3
"""Determinism proof (DESIGN.md section 6): for every engine, run N run indices twice in fresh worker processes and
once more split differently over workers; the per-run event-log hashes (R lines) must be identical.
usage: determinism.py [ENGINE ...] [--n N] [--seed S]"""
import os, sys, subprocess, time
HERE = os.path.dirname(os.path.abspath(__file__))
sys.path.insert(0, HERE)
import checks
from build import Builder
from driver import kv

ENGINES = {
    "oom": (lambda b: [checks.build_oom(b)[0]], []),
    "fs": (lambda b: [checks.build_fs(b)[0]], []),
    "alloc": (lambda b: checks.build_alloc(b)[0], []),
    "hist": (lambda b: checks.build_hist(b)[0], []),
    "omp": (lambda b: [checks.build_omp(b)[0]], []),
    "thr": (lambda b: [checks.build_thr(b)[0]], []),
    "cfg": (lambda b: [checks.build_cfg(b)[0]], []),
}


def run(exe, seed, first, count, outdir, tag):
    d = os.path.join(outdir, tag)
    os.makedirs(d, exist_ok=True)
    p = subprocess.run([exe, "worker", str(seed), str(first), str(count), "quick", d, "100000"], stdout=subprocess.PIPE, stderr=subprocess.STDOUT, text=True)
    res = {}
    for l in p.stdout.split("\n"):
        if l.startswith("R "):
            t, dd = kv(l)
            res[int(dd["idx"])] = (dd.get("class", dd.get("viol", "")), dd["hash"])
    return res


def main():
    a = sys.argv[1:]
    n, seed, names = 200, 4242, []
    i = 0
    while i < len(a):
        if a[i] == "--n": n = int(a[i + 1]); i += 2
        elif a[i] == "--seed": seed = int(a[i + 1]); i += 2
        else: names.append(a[i]); i += 1
    names = names or sorted(ENGINES)
    bad = 0
    for name in names:
        b = Builder()
        try:
            t0 = time.time()
            exes = ENGINES[name][0](b)
            tot = 0
            bad_here = 0
            for exe in exes:
                out = os.path.join(b.scratch, "det_" + os.path.basename(exe))
                from concurrent.futures import ThreadPoolExecutor
                per = (n + 15) // 16
                with ThreadPoolExecutor(16) as ex:
                    A = list(ex.map(lambda w: run(exe, seed, w * per, per, out, "a%d" % w), range(16)))
                    B = list(ex.map(lambda w: run(exe, seed, w * per, per, out, "b%d" % w), range(16)))
                    per4 = (n + 3) // 4
                    C = list(ex.map(lambda w: run(exe, seed, w * per4, per4, out, "c%d" % w), range(4)))
                ra, rb, rc = {}, {}, {}
                for r in A: ra.update(r)
                for r in B: rb.update(r)
                for r in C: rc.update(r)
                diff = [k for k in ra if ra[k] != rb.get(k) or (k in rc and ra[k] != rc[k])]
                tot += len(ra)
                if diff:
                    bad += 1
                    bad_here += 1
                    print("NONDETERMINISM engine=%s exe=%s runs=%s e.g. %s vs %s vs %s" % (name, os.path.basename(exe), diff[:5], ra[diff[0]], rb.get(diff[0]), rc.get(diff[0])))
            print("determinism %-6s %5d runs x 3 executions (16, 16 and 4 workers): %s  %.1fs" % (name, tot, "IDENTICAL" if not bad_here else "DIFFERENCES", time.time() - t0), flush=True)
        finally:
            b.cleanup()
    return 1 if bad else 0


if __name__ == "__main__":
    sys.exit(main())
