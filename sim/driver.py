"""Generic driver: fan-out over worker processes, violation gate (determinism +
fresh-process replay), ddmin shrinking, known-findings matching, evidence."""
import json, os, re, shutil, subprocess, sys, time

VERIF = os.path.dirname(os.path.dirname(os.path.abspath(__file__)))
NWORKERS = int(os.environ.get("M4SIM_WORKERS", "16"))


def kv(line):
    """parse 'T k=v k=v ... detail=rest of line' -> (tag, dict)"""
    tag, _, rest = line.partition(" ")
    d = {}
    m = re.search(r"\bdetail=(.*)$", rest)
    if m:
        d["detail"] = m.group(1)
        rest = rest[:m.start()]
    for tok in rest.split():
        if "=" in tok:
            k, _, v = tok.partition("=")
            d[k] = v
    return tag, d


class Symbolizer:
    def __init__(self, exe):
        self.exe, self.cache = exe, {}

    def func(self, addr):
        if addr in self.cache:
            return self.cache[addr]
        name = "?"
        try:
            a = int(addr, 16)
            # return address -> call instruction
            out = subprocess.run(["addr2line", "-f", "-i", "-e", self.exe, hex(a - 1)], stdout=subprocess.PIPE, text=True).stdout.split("\n")
            if out and out[0]:
                name = out[0].strip()
                # strip the variant prefix (def_, ts_, ...) that objcopy added to global symbols
                name = re.sub(r"^(?:[a-z0-9]+_)(?=(?:_?mzd_|_?mzp_|m4ri_|djb_|heap_|ple_|m4shim_))", "", name)
        except Exception:
            pass
        self.cache[addr] = name
        return name


def fanout(exe, seed, total, tier, outdir, budget_s, nworkers=None, extra=(), chunk=None):
    """run `exe worker seed first count tier outdir budget` on nworkers processes; yield parsed lines.
    With several executables (flavours) and `chunk` given, the index range is cut into chunks of that many runs and chunk c is run by
    executable (c + c // 16) % len(exes): the flavour is then not tied to a residue class of the chunk number (the engines' strata are
    residue classes of idx // chunk, and a fixed worker -> flavour map had left whole strata to one flavour)."""
    nworkers = nworkers or NWORKERS
    exes = exe if isinstance(exe, (list, tuple)) else [exe]
    os.makedirs(outdir, exist_ok=True)
    jobs = []
    if chunk and len(exes) > 1:
        nch = (total + chunk - 1) // chunk
        for ci in range(nch):
            first = ci * chunk
            jobs.append((ci, first, min(chunk, total - first), exes[(ci + ci // 16) % len(exes)]))
    else:
        per = (total + nworkers - 1) // nworkers
        for w in range(nworkers):
            first = w * per
            cnt = min(per, total - first)
            if cnt > 0:
                jobs.append((w, first, cnt, exes[w % len(exes)]))
    lines, crashes = [], []
    running = []

    def reap(block):
        nonlocal running
        still = []
        for (w, first, cnt, ex, p, log) in running:
            rc = p.wait() if block else p.poll()
            if rc is None:
                still.append((w, first, cnt, ex, p, log))
                continue
            log.close()
            with open(os.path.join(outdir, "worker-%d.out" % w)) as f:
                wl = [l.rstrip("\n") for l in f]
            lines.extend((w, l) for l in wl)
            if rc != 0:
                crashes.append(dict(worker=w, exe=ex, first=first, count=cnt, rc=rc, tail=wl[-30:], cur=os.path.join(outdir, "cur-%d.prog" % first)))
        running = still

    per_budget = budget_s  # a safety net per process, not a schedule: a chunk normally needs a small fraction of it
    for (w, first, cnt, ex) in jobs:
        while len(running) >= nworkers:
            reap(False)
            if len(running) >= nworkers:
                time.sleep(0.01)
        log = open(os.path.join(outdir, "worker-%d.out" % w), "w")
        p = subprocess.Popen([ex, "worker", str(seed), str(first), str(cnt), tier, outdir, str(per_budget)] + list(extra), stdout=log, stderr=subprocess.STDOUT)
        running.append((w, first, cnt, ex, p, log))
    while running:
        reap(True)
    lines.sort(key=lambda t: t[0])
    return lines, crashes


VALGRIND = ["valgrind", "-q", "--error-exitcode=88"]


def exec_prog(exe, path, timeout=3600, extra=(), wrapper=None):
    """-> dict of the X line (without detail) or None.  Programs marked `# runner=valgrind` are executed under memcheck."""
    if wrapper is None:
        try:
            with open(path) as f:
                wrapper = VALGRIND if "# runner=valgrind" in f.read(4000) else []
        except OSError:
            wrapper = []
    try:
        env = dict(os.environ, M4SIM_SLOW_FACTOR="40") if wrapper else None   # an instrumenting runner: the child's CPU-time limit scales with it
        p = subprocess.run(list(wrapper) + [exe, "exec", path] + list(extra), stdout=subprocess.PIPE, stderr=subprocess.STDOUT, text=True, timeout=timeout, env=env)
    except subprocess.TimeoutExpired:
        return dict(cls="TIMEOUT", raw="timeout")
    xs = [l for l in p.stdout.split("\n") if l.startswith("X ")]
    if not xs:
        return dict(cls="NOX", raw=p.stdout[-2000:], rc=p.returncode)
    tag, d = kv(xs[-1])
    d["cls"] = d.get("class", "?")
    d["raw"] = xs[-1]
    d["rc"] = p.returncode
    d["out"] = p.stdout[-4000:]
    if d["cls"] == "memcheck_error":
        # first library frame of the first memcheck report
        m = re.search(r"==\d+==\s+(?:at|by) 0x[0-9A-F]+: (\w+) \(((?!ops\.c|hist\.c|engutil\.c)[a-z_]+\.[ch]):", p.stdout)
        d["func"] = re.sub(r"^(?:[a-z0-9]+_p?_?)(?=(?:_?mzd_|_?mzp_|m4ri_|djb_|ple_))", "", m.group(1)) if m else "-"
    return d


def same_violation(a, b, sym):
    if a is None or b is None:
        return False
    if a.get("cls") != b.get("cls"):
        return False
    if a.get("func") != b.get("func"):
        return False
    sa, sb = a.get("site"), b.get("site")
    if sa and sb and sym:
        return sym.func(sa) == sym.func(sb)
    return True


SHRINK_SECONDS = float(os.environ.get("M4SIM_SHRINK_SECONDS", "90"))  # wall-clock budget per violation signature; the best program found so far is kept


def ddmin_lines(lines, keep_pred, test, deadline=None):
    """Greedy line removal (ddmin flavour: chunks halving down to single lines).
    keep_pred(line) -> True if the line may never be removed. test(lines)->bool."""
    n_tests = 0
    if deadline is None:
        deadline = time.time() + SHRINK_SECONDS
    cur = list(lines)
    chunk = max(1, len(cur) // 2)
    while chunk >= 1:
        i = 0
        progress = False
        while i < len(cur):
            cand_idx = [k for k in range(i, min(i + chunk, len(cur))) if not keep_pred(cur[k])]
            if not cand_idx:
                i += chunk
                continue
            cand = [l for k, l in enumerate(cur) if k not in cand_idx]
            n_tests += 1
            if test(cand):
                cur = cand
                progress = True
            else:
                i += chunk
            if n_tests > 400 or time.time() > deadline:
                return cur, n_tests
        if chunk == 1 and not progress:
            break
        chunk = chunk // 2 if chunk > 1 else (1 if progress else 0)
    return cur, n_tests


DIM_LINE = re.compile(r"^(mat|perm)\s")


def shrink_dims(lines, test, budget=120, deadline=None):
    """Replace every occurrence of a dimension value (in mat/perm lines) by a smaller one, keeping equal
    dimensions equal, while the violation persists."""
    n_tests = 0

    def dims_of(ls):
        vals = set()
        for l in ls:
            w = l.split()
            if w and w[0] in ("mat", "wmat") and len(w) >= 4:
                vals.update([int(w[2]), int(w[3])])
            elif w and w[0] == "perm" and len(w) >= 3:
                vals.add(int(w[2]))
        return sorted((v for v in vals if v > 1), reverse=True)

    def subst(ls, old, new):
        out = []
        for l in ls:
            w = l.split()
            if w and w[0] in ("mat", "wmat") and len(w) >= 4:
                if int(w[2]) == old: w[2] = str(new)
                if int(w[3]) == old: w[3] = str(new)
                out.append(" ".join(w))
            elif w and w[0] == "perm" and len(w) >= 3:
                if int(w[2]) == old: w[2] = str(new)
                out.append(" ".join(w))
            else:
                out.append(l)
        return out

    cur = list(lines)
    changed = True
    if deadline is None:
        deadline = time.time() + SHRINK_SECONDS
    while changed and n_tests < budget and time.time() < deadline:
        changed = False
        for v in dims_of(cur):
            for new in sorted(set([1, 2, v // 2, 64 if v > 64 else 1, 65 if v > 65 else 1, v - 1])):
                if new >= v or new < 1:
                    continue
                cand = subst(cur, v, new)
                n_tests += 1
                if test(cand):
                    cur = cand
                    changed = True
                    break
                if n_tests >= budget or time.time() > deadline:
                    break
            if changed or n_tests >= budget or time.time() > deadline:
                break
    return cur, n_tests


def load_known():
    p = os.path.join(VERIF, "known_findings.json")
    if not os.path.exists(p):
        return []
    with open(p) as f:
        return json.load(f).get("findings", [])


def match_known(prop, signature, known):
    for k in known:
        if k.get("property") == prop and k.get("status", "open") == "open" and re.fullmatch(k["signature"], signature):
            return k
    return None


class Report:
    """collects output lines and the exit code"""

    def __init__(self, prop):
        self.prop = prop
        self.violations = []   # (prop, signature, replay)
        self.known = []
        self.harness_errors = []

    def harness(self, msg):
        self.harness_errors.append(msg)
        print("HARNESS-ERROR: " + msg, flush=True)

    def exit_code(self):
        if self.harness_errors:
            return 2
        return 1 if self.violations else 0


def process_violations(rep, exe, vlines, sym, outdir, seed, make_signature, keep_pred=None, max_unique=6, shrink=True, exec_extra=(), tag=""):
    """vlines: list of dicts with keys prop, class, site, file, scen ... Groups by signature, gates, shrinks,
    replays, matches known findings, prints VIOLATION / KNOWN-FINDING lines."""
    known = load_known()
    groups = {}
    for v in vlines:
        sig = make_signature(v, sym)
        groups.setdefault((v.get("prop", rep.prop), sig), []).append(v)
    os.makedirs(os.path.join(VERIF, "replays"), exist_ok=True)
    n = 0
    for (prop, sig), vs in sorted(groups.items()):
        n += 1
        if n > max_unique:
            print("note: %d further distinct violation signatures not processed (first %d shown)" % (len(groups) - max_unique, max_unique))
            break
        v = vs[0]
        path = v["file"]
        base = exec_prog(exe, path, extra=exec_extra)
        again = exec_prog(exe, path, extra=exec_extra)
        if base is None or base.get("cls") in ("NOX", "TIMEOUT") or not same_violation(base, again, sym) or base.get("hash") != again.get("hash"):
            rep.harness("violation %s did not replay deterministically in fresh processes (%s / %s); file kept at %s" % (sig, base and base.get("raw"), again and again.get("raw"), path))
            continue
        if base.get("cls", "").startswith("ok"):
            rep.harness("violation %s reported by a worker is not reproduced by exec (%s)" % (sig, base.get("raw")))
            continue
        with open(path) as f:
            lines = [l.rstrip("\n") for l in f if l.strip()]
        orig_len = len(lines)
        tests = 0
        if shrink:
            tmp = os.path.join(outdir, "shrink-%d.prog" % n)

            def test(cand):
                with open(tmp, "w") as f:
                    f.write("\n".join(cand) + "\n")
                r = exec_prog(exe, tmp, extra=exec_extra)
                return same_violation(base, r, sym)

            kp = keep_pred or (lambda l: l.startswith("#") or l.startswith("lib "))
            dl = time.time() + SHRINK_SECONDS
            lines, t1 = ddmin_lines(lines, kp, test, deadline=dl)
            lines, t2 = shrink_dims(lines, test, deadline=dl)
            tests = t1 + t2
        safe = re.sub(r"[^A-Za-z0-9_.-]+", "_", sig)[:80]
        replay = os.path.join(VERIF, "replays", "%s-%s-%s%s.replay" % (prop, seed, safe, tag))
        with open(replay, "w") as f:
            f.write("\n".join(lines) + "\n")
        final = exec_prog(exe, replay, extra=exec_extra)
        if not same_violation(base, final, sym):
            rep.harness("minimised replay of %s does not reproduce (%s)" % (sig, final and final.get("raw")))
            continue
        k = match_known(prop, sig, known)
        info = "signature=%s occurrences=%d lines=%d->%d shrink_runs=%d result: %s" % (sig, len(vs), orig_len, len(lines), tests, final.get("raw"))
        if k:
            rep.known.append((prop, sig))
            print("KNOWN-FINDING: property=%s %s (%s) replay=%s" % (prop, k.get("what", sig), sig, replay), flush=True)
        else:
            rep.violations.append((prop, sig, replay))
            print("VIOLATION property=%s replay=%s" % (prop, replay), flush=True)
            print("  " + info, flush=True)
            if v.get("detail"):
                print("  detail: " + v["detail"], flush=True)


def write_evidence(prop, tier, seed, level, coverage, assumptions, wall_s, violations, extra=None):
    ev = dict(property_id=prop, tier=tier, seed=int(seed), level=level, coverage=coverage,
              assumptions=assumptions, wall_s=round(wall_s, 2), violations=int(violations))
    if extra:
        ev.update(extra)
    d = os.path.join(VERIF, "evidence")
    if os.path.realpath(os.environ.get("M4SIM_REPO", "/repo")) != "/repo":
        # a run against a scratch copy of the library (sensitivity campaign, seeded changes): the committed evidence describes /repo only
        d = os.path.join(VERIF, "replays", "evidence-of-scratch-tree")
    os.makedirs(d, exist_ok=True)
    with open(os.path.join(d, prop + ".json"), "w") as f:
        json.dump(ev, f, indent=1, sort_keys=True)
        f.write("\n")
