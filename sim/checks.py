"""Per-property checks.  Each returns a process exit code (0 held, 1 violation, 2 harness distrusts itself)."""
import hashlib, json, os, re, subprocess, sys, time
from build import Builder, Variant, BuildError
import driver
from driver import kv, Report, Symbolizer, fanout, process_violations, write_evidence, exec_prog

DEFAULT_SEED = {"quick": 20261002, "thorough": 20261003}

REAL_COMPONENTS = ["all m4ri library code (compiled from /repo's working tree)", "libpng", "zlib", "libc stdio buffering",
                   "the compiler's OpenMP lowering"]
SIM_COMPONENTS = ["heap front end (placement, content, failure, release ledger)", "abort()", "fopen/FILE* backing store",
                  "time()/localtime()", "libgomp (OpenMP runtime)", "threads (cooperative tasks)"]


def digest(pairs):
    h = hashlib.sha256()
    for p in sorted(pairs):
        h.update(repr(p).encode())
    return h.hexdigest()[:16]


# ------------------------------------------------------------------ C20
def oom_variants(flavour="asan"):
    return [Variant("def", flavour=flavour, knobs=True),
            Variant("ts", mmc=0, mzdcache=0, flavour=flavour, knobs=True),
            Variant("nosse", sse2=0, flavour=flavour, knobs=True),
            Variant("nossets", sse2=0, mmc=0, mzdcache=0, flavour=flavour, knobs=True)]


def build_oom(b):
    vs = b.build_variants(oom_variants(), required=("def",))
    return b.build_engine("oom", ["gen.c", "eng/engutil.c", "eng/oom.c"], vs, "asan", core=("heap.c", "die.c", "fs.c", "sched.c")), vs


def build_oom_omp(b):
    """OpenMP build on the simulated runtime, plain flavour (cooperative tasks switch stacks, which ASan does not follow)"""
    vs = b.build_variants([Variant("omp", openmp=1, mmc=1, mzdcache=0, flavour="plain", knobs=True),
                           Variant("ompts", openmp=1, mmc=0, mzdcache=0, flavour="plain", knobs=True)])
    return b.build_engine("oom_omp", ["gen.c", "eng/engutil.c", "eng/oom.c"], vs, "plain", core=("heap.c", "die.c", "fs.c", "sched.c")), vs


def check_C20(tier, seed, replay=None):
    t0 = time.time()
    rep = Report("C20")
    b = Builder()
    try:
        exe, vs = build_oom(b)
        sym = Symbolizer(exe)
        if replay:
            r = exec_prog(exe, replay)
            print(r.get("out", r.get("raw")))
            ok = r.get("cls", "").startswith("ok")
            if not ok:
                print("VIOLATION property=C20 replay=%s" % replay)
            return 0 if ok else 1
        nscen = 79
        rounds = 6 if tier == "quick" else 120
        total = nscen * rounds
        outdir = os.path.join(b.scratch, "out")
        lines, crashes = fanout(exe, seed, total, tier, outdir, 100 if tier == "quick" else 1500)
        # the same enumeration for the OpenMP build (allocation fails inside a parallel region / section of the simulated runtime)
        bo = Builder()
        try:
            oexe, ovs = build_oom_omp(bo)
            osym = Symbolizer(oexe)
            olines, ocr = fanout(oexe, seed, 7 * (4 if tier == "quick" else 40), tier, os.path.join(bo.scratch, "out"), 100 if tier == "quick" else 900, extra=["omp"])
            crashes += ocr
            ovl = []
            for w, l in olines:
                tag, d = kv(l)
                if tag == "R":
                    d["scen"] = "omp:" + d["scen"]
                    lines.append((w, "R " + " ".join("%s=%s" % kvp for kvp in d.items())))
                    for a in d.get("sites", "").split(","):
                        if a:
                            osym.func(a)
                elif tag == "V":
                    ovl.append(d)
            if ovl:
                def osig(v, s):
                    return "oom|omp:%s|%s|%s" % (v.get("scen"), v.get("class"), osym.func(v["site"]) if v.get("site", "0") not in ("0", "0x0") else "-")
                process_violations(rep, oexe, ovl, osym, os.path.join(bo.scratch, "out"), seed, osig,
                                   keep_pred=lambda l: l.startswith("#") or l.startswith("lib ") or l.startswith("failnext"), tag="-omp")
            vs = vs + ovs
        finally:
            bo.cleanup()
        for c in crashes:
            rep.harness("oom worker %d exited with %d: %s" % (c["worker"], c["rc"], c["tail"][-3:]))
        tot = dict(n=0, die=0, viol=0, notfired=0, skipped=0)
        per_scen, hashes, vl, sites, samples = {}, [], [], {}, []
        for w, l in lines:
            tag, d = kv(l)
            if tag == "R":
                for k in tot:
                    tot[k] += int(d[k])
                s = per_scen.setdefault(d["scen"], dict(scenarios=0, fault_positions=0, controlled_abort=0, violations=0, libs=set()))
                s["scenarios"] += 1; s["fault_positions"] += int(d["n"]); s["controlled_abort"] += int(d["die"]); s["violations"] += int(d["viol"])
                s["libs"].add(d["lib"])
                hashes.append((int(d["idx"]), d["hash"]))
                for a in d.get("sites", "").split(","):
                    if a:
                        f = sym.func(a)
                        sites[f] = sites.get(f, 0) + 1
            elif tag == "V":
                vl.append(d)
            elif tag == "K":
                pass
        if tot["notfired"]:
            rep.harness("%d faulted runs completed without the fault firing (dry run and faulted run disagree)" % tot["notfired"])
        if tot["n"] == 0:
            rep.harness("no fault position explored")
        # sample programs
        for w in range(3):
            p = os.path.join(outdir, "cur-%d.prog" % (w * ((total + driver.NWORKERS - 1) // driver.NWORKERS)))
            if os.path.exists(p):
                samples.append(open(p).read())

        def sig(v, sym):
            return "oom|%s|%s|%s" % (v.get("scen"), v.get("class"), sym.func(v["site"]) if v.get("site", "0") not in ("0", "0x0") else "-")
        process_violations(rep, exe, vl, sym, outdir, seed, sig,
                           keep_pred=lambda l: l.startswith("#") or l.startswith("lib ") or l.startswith("failnext"))
        for s in per_scen.values():
            s["libs"] = sorted(s["libs"])
        wall = time.time() - t0
        cov = dict(
            evaluations=tot["n"] + len(hashes),
            distinct_nontrivial=tot["die"] + tot["viol"],
            rule="one evaluation = one forked execution of a generated scenario program (dry run, or one with exactly one allocation request failing); "
                 "every request index 0..N-1 of every scenario is enumerated, so positions are distinct by construction; non-trivial = the injected "
                 "failure actually fired in that child (flag set by the heap seam in a MAP_SHARED page)",
            exhaustive=True,
            exhaustive_scope="all fault positions of each explored scenario program (not all scenarios)",
            samples=samples[:3],
            scenarios=len(hashes), fault_positions=tot["n"], controlled_abort=tot["die"], violating_positions=tot["viol"],
            skipped_scenarios=tot["skipped"],
            per_scenario=per_scen,
            distinct_failing_call_sites=len(sites), failing_call_sites=sites,
            fault_kinds_fired={"allocation returns NULL/ENOMEM": tot["die"] + tot["viol"]},
            runs_per_hour=int((tot["n"] + len(hashes)) / max(wall, 1e-3) * 3600),
            seeds_per_hour=int(len(hashes) / max(wall, 1e-3) * 3600),
            simulated_time="not applicable: no clock in this property",
            run_hash_digest=digest(hashes),
            variants=[v.describe() for v in vs], source_sha256=b.sha,
            real_components=REAL_COMPONENTS[:4], simulated_components=SIM_COMPONENTS[:4],
        )
        write_evidence("C20", tier, seed, "fault_enumeration", cov,
                       ["requests issued by libpng/zlib/libc on the library's behalf are outside the seam",
                        "only the scenarios generated for this seed are enumerated; within each, every fault position is",
                        "sanitizer runtime (ASan/UBSan) is trusted to report invalid accesses after the failed allocation"],
                       wall, len(rep.violations))
        print("C20 %s: %d scenarios, %d fault positions, %d controlled aborts, %d violating positions, %d distinct call sites, %.1fs"
              % (tier, len(hashes), tot["n"], tot["die"], tot["viol"], len(sites), wall))
        return rep.exit_code()
    except BuildError as e:
        print("HARNESS-ERROR: build failed: %s" % e)
        return 2
    finally:
        b.cleanup()


# ------------------------------------------------------------------ C18
def build_fs(b):
    vs = b.build_variants([Variant("def", flavour="asan", knobs=True), Variant("ts", mmc=0, mzdcache=0, flavour="asan", knobs=True),
                           Variant("nosse", sse2=0, flavour="asan", knobs=True)], required=("def",))
    return b.build_engine("fs", ["gen.c", "eng/engutil.c", "eng/fs.c"], vs, "asan"), vs


def parse_counts(s):
    d = {}
    for tok in s.split(","):
        if ":" in tok:
            k, _, v = tok.partition(":")
            d[k] = int(v)
    return d


def check_C18(tier, seed, replay=None):
    t0 = time.time()
    rep = Report("C18")
    b = Builder()
    try:
        exe, vs = build_fs(b)
        if replay:
            r = exec_prog(exe, replay)
            print(r.get("raw"))
            ok = r.get("cls", "") == "ok"
            if not ok:
                print("VIOLATION property=C18 replay=%s" % replay)
            return 0 if ok else 1
        total = 64 if tier == "quick" else 800
        outdir = os.path.join(b.scratch, "out")
        lines, crashes = fanout(exe, seed, total, tier, outdir, 120 if tier == "quick" else 1500)
        for c in crashes:
            rep.harness("fs worker %d exited with %d: %s" % (c["worker"], c["rc"], c["tail"][-3:]))
        fates, verdicts, probes, per_kind, hashes, vl = {}, {}, {}, {}, [], []
        children = 0
        for w, l in lines:
            tag, d = kv(l)
            if tag == "R":
                children += int(d["children"])
                hashes.append((int(d["idx"]), d["hash"]))
                k = per_kind.setdefault(d["scen"], dict(cases=0, child_runs=0, violations=0))
                k["cases"] += 1; k["child_runs"] += int(d["children"]); k["violations"] += int(d["viol"])
                for kk, v in parse_counts(d["fates"]).items():
                    fates[kk] = fates.get(kk, 0) + v
                for kk, v in parse_counts(d["verdicts"]).items():
                    verdicts[kk] = verdicts.get(kk, 0) + v
            elif tag == "T":
                for kk, v in d.items():
                    if kk.startswith("p."):
                        probes[kk[2:]] = probes.get(kk[2:], 0) + int(v)
            elif tag == "V":
                vl.append(d)
        if children == 0:
            rep.harness("no child run")
        stuck = sorted(k for k, v in probes.items() if v == 0)
        if tier == "thorough" and stuck:
            rep.harness("reach probes stuck at zero: %s" % stuck)

        def sig(v, sym):
            return "fs|%s|%s|%s" % (v.get("scen"), v.get("class"), v.get("func", "-"))
        process_violations(rep, exe, vl, None, outdir, seed, sig,
                           keep_pred=lambda l: l.startswith("#") or l.startswith("lib ") or l.startswith("expect") or l.startswith("cut") or l.startswith("ioerr"))
        samples = []
        per = (total + driver.NWORKERS - 1) // driver.NWORKERS
        for w in range(0, driver.NWORKERS, 5):
            p = os.path.join(outdir, "cur-%d.prog" % (w * per))
            if os.path.exists(p):
                samples.append(open(p).read())
        wall = time.time() - t0
        faults = {
            "file torn (EOF at offset, every offset of the file)": probes.get("torn_in_signature", 0) + probes.get("torn_in_IHDR", 0) + probes.get("torn_in_tEXt", 0) + probes.get("torn_in_IDAT", 0) + probes.get("torn_in_IEND", 0) + probes.get("torn_in_tail", 0) + probes.get("jcf_torn", 0),
            "bit flipped at rest": sum(probes.get(k, 0) for k in ("flip_in_length", "flip_in_type", "flip_in_data", "flip_in_crc", "flip_in_signature")),
            "read fails with EIO": probes.get("eio_on_png_read", 0) + probes.get("jcf_eio", 0),
            "short reads (1..7 bytes per read call)": probes.get("short_reads_roundtrip", 0),
            "write fails with ENOSPC": probes.get("write_enospc", 0),
            "fopen fails (EACCES/EMFILE)": probes.get("write_open_fail", 0),
            "fclose fails": probes.get("write_close_fail", 0),
            "foreign writer (unsupported / non-library PNG)": sum(probes.get("foreign_depth%d" % d, 0) for d in (1, 2, 4, 8, 16)),
            "malformed JCF token": sum(probes.get(k, 0) for k in ("jcf_index0", "jcf_positive_first", "jcf_index_too_large", "jcf_too_many_rows", "jcf_bad_modulus", "jcf_short_header", "jcf_negative_dims", "jcf_huge_dims")),
        }
        cov = dict(
            evaluations=children,
            distinct_nontrivial=sum(v for k, v in fates.items() if k != "exit0") + verdicts.get("equal", 0) + verdicts.get("null", 0),
            rule="one evaluation = one forked execution of a program (write and/or read of one simulated file under one fault plan). Truncation offsets are "
                 "enumerated completely per file up to 3000 bytes (larger, multi-IDAT files: every chunk boundary -1/0/+1 plus a seeded sample), single-bit flips completely for files up to 150/750 bytes (quick/thorough) and sampled above, the rest is seeded. "
                 "Non-trivial = the child reached a judged outcome (terminated by libpng/m4ri_die, or returned NULL, or returned a matrix that was compared); "
                 "distinct by construction within a file (different offset/bit), files differ by seed",
            exhaustive=False,
            exhaustive_scope="truncation at every byte offset of each generated PNG file of at most 3000 bytes is complete; everything else is sampled",
            samples=samples[:4], cases=len(hashes), per_kind=per_kind, child_fates=fates, child_verdicts=verdicts,
            fault_kinds_fired=faults, reach_probes=probes, probes_stuck_at_zero=stuck,
            runs_per_hour=int(children / max(wall, 1e-3) * 3600), seeds_per_hour=int(len(hashes) / max(wall, 1e-3) * 3600),
            simulated_time="simulated wall clock: one seeded time_t per written file in 1903..2156 plus seeded jumps between time() and localtime(); no durations are modelled",
            run_hash_digest=digest(hashes), variants=[v.describe() for v in vs], source_sha256=b.sha,
            real_components=["m4ri io.c and everything it calls", "libpng", "zlib", "libc stdio (FILE buffering, fscanf)"],
            simulated_components=["file system behind fopen (fopencookie streams over memory)", "time()/localtime()", "heap front end (ledger, 64 MiB limit)", "abort()"],
        )
        write_evidence("C18", tier, seed, "fault_enumeration", cov,
                       ["a returned matrix that differs from the written one after truncation/EIO/one flipped bit counts as a violation: PNG chunks are CRC protected, so accepting such a file means unverified bytes were used",
                        "palette images: only memory safety and the ledger are judged (pixel meaning is the foreign writer's business)",
                        "the reference JCF reader mirrors scanf(\"%ld\") tokenisation; numbers with more than 18 digits are never generated",
                        "allocations made by libpng/zlib are outside the ledger"],
                       wall, len(rep.violations))
        print("C18 %s: %d cases, %d child runs, fates %s, %d violating runs, %.1fs" % (tier, len(hashes), children, fates, len(vl), wall))
        return rep.exit_code()
    except BuildError as e:
        print("HARNESS-ERROR: build failed: %s" % e)
        return 2
    finally:
        b.cleanup()


# ------------------------------------------------------------------ C14
def alloc_variants(fl):
    return [Variant("def", flavour=fl, knobs=True), Variant("ts", mmc=0, mzdcache=0, flavour=fl, knobs=True),
            Variant("mmconly", mmc=1, mzdcache=0, flavour=fl, knobs=True), Variant("nosse", sse2=0, flavour=fl, knobs=True)]


def build_alloc(b, flavours=("asan", "plain")):
    exes, allv = [], []
    for fl in flavours:
        vs = [Variant(v.name + ("_p" if fl == "plain" else ""), sse2=v.sse2, mmc=v.mmc, mzdcache=v.mzdcache, flavour=fl, knobs=True) for v in alloc_variants(fl)]
        b.build_variants(vs, required=(vs[0].name,))
        exes.append(b.build_engine("alloc_" + fl, ["gen.c", "eng/engutil.c", "eng/alloc.c"], vs, fl))
        allv += vs
    return exes, allv


def build_hist(b, flavours=("asan", "plain")):
    exes, allv = [], []
    for fl in flavours:
        vs = [Variant(v.name + ("_p" if fl == "plain" else ""), sse2=v.sse2, mmc=v.mmc, mzdcache=v.mzdcache, flavour=fl, knobs=True) for v in alloc_variants(fl)]
        b.build_variants(vs, required=(vs[0].name,))
        exes.append(b.build_engine("hist_" + fl, ["gen.c", "eng/engutil.c", "eng/hist.c"], vs, fl))
        allv += vs
    return exes, allv


def which_exe(exes, path):
    """asan/plain executables use different variant names (suffix _p): pick by the program's lib line"""
    try:
        txt = open(path).read()
    except OSError:
        return exes[0]
    for l in txt.split("\n"):
        if l.startswith("lib "):
            return exes[1] if l.strip().endswith("_p") and len(exes) > 1 else exes[0]
    return exes[0]


def check_C14(tier, seed, replay=None):
    t0 = time.time()
    rep = Report("C14")
    b = Builder()
    try:
        exes, vs = build_alloc(b)
        if replay:
            r = exec_prog(which_exe(exes, replay), replay)
            print(r.get("raw"))
            ok = r.get("cls", "") == "ok"
            if not ok:
                print("VIOLATION property=C14 replay=%s" % replay)
            return 0 if ok else 1
        total = 2400 if tier == "quick" else 90000
        outdir = os.path.join(b.scratch, "out")
        lines, crashes = fanout(exes, seed, total, tier, outdir, 60 if tier == "quick" else 1300, chunk=50)
        for c in crashes:
            rep.harness("alloc worker %d exited with %d: %s" % (c["worker"], c["rc"], c["tail"][-3:]))
        hashes, vl, probes, classes = [], [], {}, {}
        steps = states = transitions = 0
        bitmap = 0
        for w, l in lines:
            tag, d = kv(l)
            if tag == "R":
                hashes.append((int(d["idx"]), d["hash"]))
                classes[d["class"]] = classes.get(d["class"], 0) + 1
            elif tag == "T":
                steps += int(d["steps"]); transitions += int(d["transitions"])
                for kk, v in d.items():
                    if kk.startswith("p."):
                        probes[kk[2:]] = probes.get(kk[2:], 0) + int(v)
            elif tag == "M":
                bitmap |= int(l[2:].strip() or "0", 16)
            elif tag == "V":
                vl.append(d)
        states = bin(bitmap).count("1")
        if not hashes:
            rep.harness("no run")
        if classes.get("SKIPPED", 0) > len(hashes) // 20:
            rep.harness("generator produced %d invalid programs" % classes["SKIPPED"])
        stuck = sorted(k for k, v in probes.items() if v == 0 and not k.startswith("quiescent_states_with_"))  # those two are measurements of what the library keeps, not reach probes
        if tier == "thorough" and stuck:
            rep.harness("reach probes stuck at zero: %s" % stuck)

        def sig(v, sym):
            return "alloc|%s|%s" % (v.get("scen"), v.get("class"))
        # group by exe so that replays run on the flavour that found them
        for exe in exes:
            mine = [v for v in vl if which_exe(exes, v["file"]) == exe]
            if mine:
                process_violations(rep, exe, mine, None, outdir, seed, sig,
                                   keep_pred=lambda l: l.startswith("#") or l.startswith("lib ") or l.startswith("world"), tag="-" + os.path.basename(exe))
        samples = []
        per = (total + driver.NWORKERS - 1) // driver.NWORKERS
        for w in (0, 1, 6):
            p = os.path.join(outdir, "cur-%d.prog" % (w * per))
            if os.path.exists(p):
                txt = open(p).read().split("\n")
                samples.append("\n".join(txt[:40]) + ("\n... (%d lines)" % len(txt) if len(txt) > 40 else ""))
        wall = time.time() - t0
        nontrivial = len(set(h for i, h in hashes))
        cov = dict(
            evaluations=len(hashes), distinct_nontrivial=nontrivial,
            rule="one evaluation = one seeded allocation history (program of init/window/free/fill/touch/reinit steps) executed in a forked process against the reference model; "
                 "distinct = distinct event-log hashes (the log records the ledger level and live header count after every step), non-trivial = at least one step executed",
            samples=samples, steps=steps, outcome_classes=classes,
            states=states, transitions=transitions,
            state_measure="abstract allocator state = (occupied block-cache slots 0..16 read from the library's cache array, heap header blocks 0..16 and fallback headers seen in the ledger, "
                          "live-header bucket {0,<64,64,<=128,<=1024,>1024}); transitions = distinct (state,state') pairs (hashed)",
            fault_kinds_fired={"recycled block handed out with stale/garbage content": probes.get("recycled_dirty_block_handed_out", 0),
                               "dirty fill of fresh blocks (0xFF, 0xA5, random words, small indices, stale)": steps},
            reach_probes=probes, probes_stuck_at_zero=stuck,
            runs_per_hour=int(len(hashes) / max(wall, 1e-3) * 3600), seeds_per_hour=int(len(hashes) / max(wall, 1e-3) * 3600),
            simulated_time="not applicable: no clock in this property",
            run_hash_digest=digest(hashes), variants=[v.describe() for v in vs], source_sha256=b.sha,
            real_components=["mzd_init/mzd_init_window/mzd_free, header pool, block cache, m4ri_init/fini and the arithmetic used by touch steps"],
            simulated_components=["heap front end: exact-size LIFO/FIFO/random recycling, dirty fill, ledger (plain flavour); ledger over ASan's allocator (asan flavour)"])
        write_evidence("C14", tier, seed, "exploration", cov,
                       ["content of live matrices is compared with the model completely every 64 steps and at the end, and for 6 random live owners after every step",
                        "the harness reads the library's global block-cache array for coverage only (never writes it)"],
                       wall, len(rep.violations))
        print("C14 %s: %d histories, %d steps, classes %s, %d abstract states, %d transitions, %.1fs" % (tier, len(hashes), steps, classes, states, transitions, wall))
        return rep.exit_code()
    except BuildError as e:
        print("HARNESS-ERROR: build failed: %s" % e)
        return 2
    finally:
        b.cleanup()


# ------------------------------------------------------------------ C10 / C11 (engine hist)
ALLOC_WRAPPERS = {"_mm_malloc", "_mm_free", "m4ri_mm_malloc", "m4ri_mm_calloc", "m4ri_mm_malloc_aligned", "m4ri_mmc_malloc", "m4ri_mmc_calloc",
                  "mzd_t_malloc", "mzd_init", "mzd_init_window", "mzd_init_window_const", "mzp_init", "mzp_init_window", "m4sim_malloc", "m4sim_calloc",
                  "m4sim_posix_memalign", "m4sim_realloc", "sim_alloc", "posix_memalign", "malloc", "calloc", "??", "?"}


def leaker(sym, bt):
    """first function of the recorded call chain that is not an allocation wrapper"""
    for a in [x for x in (bt or "").split(",") if x]:
        try:
            out = subprocess.run(["addr2line", "-f", "-i", "-e", sym.exe, hex(int(a, 16) - 1)], stdout=subprocess.PIPE, text=True).stdout.split("\n")
        except Exception:
            continue
        for name in out[0::2]:
            name = re.sub(r"^(?:[a-z0-9]+_p?_?)(?=(?:_?mzd_|_?mzp_|m4ri_|djb_|ple_|m4shim_))", "", name.strip())
            if name and name not in ALLOC_WRAPPERS:
                return name
    return "-"


def check_hist(prop, tier, seed, replay=None):
    t0 = time.time()
    rep = Report(prop)
    b = Builder()
    try:
        exes, vs = build_hist(b)
        syms = {e: Symbolizer(e) for e in exes}
        if replay:
            exe = which_exe(exes, replay)
            r = exec_prog(exe, replay)
            print(r.get("raw"))
            ok = r.get("cls", "") == "ok"
            if not ok:
                print("VIOLATION property=%s replay=%s" % (r.get("prop", prop), replay))
            return 0 if ok else 1
        nops = 72
        if prop == "C10":
            total = nops * (96 if tier == "quick" else 2000)
        else:
            total = nops * (80 if tier == "quick" else 1500)
        outdir = os.path.join(b.scratch, "out")
        budget = 100 if tier == "quick" else 1400
        lines, crashes = fanout(exes, seed, total, tier, outdir, budget, chunk=nops)  # one chunk = one stratum (idx // nops)
        ill_lines = []
        if prop == "C11":
            outdir2 = os.path.join(b.scratch, "out_ill")
            nill = 21 * 8 * (6 if tier == "quick" else 240)
            ill_lines, cr2 = fanout(exes[:1], seed, nill, tier, outdir2, budget, extra=["illdim"])
            crashes += cr2
        # C11 also owns the "temporaries are released" clause on I/O error paths: the write-side fault plane of the fs engine
        fs_viol, fs_children = [], 0
        if prop == "C11":
            bf = Builder()
            fexe, fvs = build_fs(bf)
            flines, cr3 = fanout(fexe, seed, 64 if tier == "quick" else 480, tier, os.path.join(bf.scratch, "out_fs"), budget, extra=["writeonly"])
            crashes += cr3
            for w, l in flines:
                tag, d = kv(l)
                if tag == "R":
                    fs_children += int(d["children"])
                elif tag == "V":
                    fs_viol.append(d)
        for cc in crashes:
            rep.harness("hist worker %d exited with %d: %s" % (cc["worker"], cc["rc"], cc["tail"][-3:]))
        hashes, vl, probes, classes, per_scen = [], [], {}, {}, {}
        worlds = calls = states = stride_dirty = 0
        ill_runs, ill_classes, ill_scen = 0, {}, {}
        for w, l in lines:
            tag, d = kv(l)
            if tag == "R":
                hashes.append((int(d["idx"]), d["hash"]))
                classes[d["class"]] = classes.get(d["class"], 0) + 1
                per_scen[d["scen"]] = per_scen.get(d["scen"], 0) + 1
            elif tag == "T":
                worlds += int(d["worlds"]); calls += int(d["calls"]); states = max(states, int(d["states"])); stride_dirty += int(d["stride_padding_dirty"])
                for kk, v in d.items():
                    if kk.startswith("p."):
                        probes[kk[2:]] = probes.get(kk[2:], 0) + int(v)
            elif tag == "V":
                vl.append(d)
        for w, l in ill_lines:
            tag, d = kv(l)
            if tag == "R":
                ill_runs += 1
                ill_classes[d["class"]] = ill_classes.get(d["class"], 0) + 1
                ill_scen[d["scen"]] = ill_scen.get(d["scen"], 0) + 1
            elif tag == "V":
                vl.append(d)
        if not hashes:
            rep.harness("no run")
        nskip = classes.get("SKIPPED", 0)
        if nskip > len(hashes) // 50:
            rep.harness("generator produced %d invalid programs out of %d" % (nskip, len(hashes)))
        stuck = sorted(k for k, v in probes.items() if v == 0 and k not in ("header_pool_grew", "storage_kept_by_the_library_until_finalisation"))
        if tier == "thorough" and stuck:
            rep.harness("reach probes stuck at zero: %s" % stuck)

        # C10: memcheck pass - the same probe programs with the heap seam handing out blocks WITHOUT filling them, under valgrind:
        # any branch, address or system call that depends on never-written heap memory is reported, even when no result changed
        vg_runs = vg_errors = 0
        if prop == "C10":
            import concurrent.futures as cf, shutil
            plain = exes[-1]
            vdir = os.path.join(b.scratch, "vg")
            os.makedirs(vdir, exist_ok=True)
            nvg = 72 if tier == "quick" else 72 * 12
            subprocess.run([plain, "worker", str(seed ^ 0x7667), "0", str(nvg), tier, vdir, "100000"], env=dict(os.environ, M4SIM_DUMP="1"), stdout=subprocess.DEVNULL)
            progs = []
            for i in range(nvg):
                pth = os.path.join(vdir, "prog-%d.prog" % i)
                if not os.path.exists(pth):
                    continue
                txt = open(pth).read().split("\n")
                out, seen1 = ["# runner=valgrind"], False
                for ln in txt:
                    w = ln.split()
                    if w and w[0] == "world" and w[1] != "0":
                        if w[1] != "1":
                            continue
                        ln = "world 1 -1 0 %s" % w[4]
                    if w and w[0] == "prefix" and w[1] != "1":
                        continue
                    out.append(ln)
                q = os.path.join(vdir, "vg-%d.prog" % i)
                open(q, "w").write("\n".join(out) + "\n")
                progs.append(q)
            if shutil.which("valgrind"):
                with cf.ThreadPoolExecutor(16) as ex:
                    res = list(ex.map(lambda q: (q, exec_prog(plain, q, timeout=900)), progs))
                for q, r in res:
                    vg_runs += 1
                    if r.get("cls") == "memcheck_error":
                        vg_errors += 1
                        vl.append({"prop": "C10", "class": "memcheck_error", "func": r.get("func", "-"), "scen": "valgrind", "file": q, "detail": "memcheck: use of uninitialised heap memory in " + r.get("func", "-")})
                    elif r.get("cls") in ("outcome_depends_on_history_or_heap", "dirty_padding", "temporary_not_released", "header_slot_not_released", "invalid_or_double_free") or str(r.get("cls", "")).startswith("faultfree_"):
                        # the program (with its extra unfilled-heap world) violates the property outright: an ordinary violation, not a harness problem
                        vl.append({"prop": r.get("prop", "C10"), "class": r.get("cls"), "func": r.get("func", "-"), "scen": "valgrind", "file": q, "detail": "under the memcheck pass: " + str(r.get("raw"))[:200]})
                    elif r.get("cls") not in ("ok", "SKIPPED"):
                        rep.harness("valgrind pass: unexpected outcome %s for %s" % (r.get("raw"), q))
            else:
                print("note: valgrind not found, memcheck pass skipped")
        for exe in exes:
            mine = [v for v in vl if which_exe(exes, v["file"]) == exe]
            if not mine:
                continue
            sym = syms[exe]

            def sig(v, s, sym=sym):
                who = v.get("func", "-")
                scen = v.get("scen")
                if v.get("class") in ("temporary_not_released", "header_slot_not_released", "invalid_or_double_free", "dirty_padding"):
                    # these are found after ANY call of the run (history prefix included): the probe operation is not the culprit
                    scen = "-"
                if v.get("class") in ("temporary_not_released", "release_of_temporaries_depends_on_history_or_heap"):
                    who = leaker(sym, v.get("bt"))
                if v.get("class") == "dirty_padding":
                    mm = re.search(r"op (\w+)", v.get("detail", ""))
                    scen = mm.group(1) if mm else "-"  # the call after which an owned matrix had excess bits set
                return "hist|%s|%s|%s" % (scen, v.get("class"), who)
            process_violations(rep, exe, mine, None, outdir, seed, sig,
                               keep_pred=lambda l: l.startswith("#") or l.startswith("lib ") or l.startswith("world 0") or l.startswith("illdim"),
                               tag="-" + os.path.basename(exe))
        if fs_viol:
            process_violations(rep, fexe, fs_viol, None, outdir, seed, lambda v, s: "fs|%s|%s|%s" % (v.get("scen"), v.get("class"), v.get("func", "-")),
                               keep_pred=lambda l: l.startswith("#") or l.startswith("lib ") or l.startswith("expect"), tag="-fs")
        samples = []
        per = (total + driver.NWORKERS - 1) // driver.NWORKERS
        for w in (0, 1, 7):
            p = os.path.join(outdir, "cur-%d.prog" % (w * per))
            if os.path.exists(p):
                txt = open(p).read().split("\n")
                keep = [l for l in txt if not l.startswith("prefix")][:30]
                samples.append("\n".join(keep) + "\n(+ %d prefix lines)" % len([l for l in txt if l.startswith("prefix")]))
        wall = time.time() - t0
        mine_viol = [v for v in rep.violations if v[0] == prop]
        if prop == "C10":
            cov = dict(
                evaluations=worlds, distinct_nontrivial=len(set(h for i, h in hashes)),
                rule="one evaluation = one execution of a probe call in one world (history prefix + heap fill kind + recycling policy + junk in overwritten destinations); "
                     "a run = one probe call in 4 (quick) or 8 (thorough) worlds, forked; distinct = distinct event-log hashes of runs; non-trivial = the probe call executed in every world",
                samples=samples, runs=len(hashes), probe_calls=calls, outcome_classes=classes, runs_per_operation=per_scen,
                states=states, state_measure="(occupied block-cache slots at probe time 0..16) x (heap fill kind) pairs seen",
                fault_kinds_fired={"dirty heap fill (0xFF/0xA5/random/small indices/stale)": worlds - len(hashes),
                                   "recycled block handed to the probe call": probes.get("probe_call_received_recycled_block", 0),
                                   "destination prefilled with junk": probes.get("destination_prefilled_with_junk", 0),
                                   "history prefix calls": probes.get("prefix_calls_executed", 0)},
                reach_probes=probes, probes_stuck_at_zero=stuck,
                stride_padding_words_found_nonzero=stride_dirty,
                memcheck_pass=dict(programs_run_under_valgrind=vg_runs, errors=vg_errors, what="probe programs with one extra world whose heap blocks are handed out unfilled, executed under valgrind memcheck (use of never-written heap memory)"),
                runs_per_hour=int(len(hashes) / max(wall, 1e-3) * 3600), seeds_per_hour=int(len(hashes) / max(wall, 1e-3) * 3600),
                simulated_time="not applicable: no clock in this property",
                run_hash_digest=digest(hashes), variants=[v.describe() for v in vs], source_sha256=b.sha,
                real_components=["every library routine of the operation table"], simulated_components=["heap front end (fill, recycling, ledger)"])
            write_evidence("C10", tier, seed, "exploration", cov,
                           ["differential against world 0 of the same tree: a wrong result given identically in all worlds is silent here (that is C01-C08's business)",
                            "outcome = value hash of all result/in-place matrices inside their columns, permutations, and scalar returns",
                            "the odd-width stride padding word is measured (stride_padding_words_found_nonzero) but not alarmed on"],
                           wall, len(mine_viol))
        else:
            cov = dict(
                evaluations=worlds + ill_runs, distinct_nontrivial=len(set(h for i, h in hashes)) + len(ill_scen),
                rule="evaluations = executions of a probe call in one world with the allocator ledger and ASan/UBSan active (clauses 1, 3 and the sampled input clause) plus forked "
                     "ill-dimensioned calls (clause 2); distinct = distinct event-log hashes of runs + distinct ill-dimensioned wrappers",
                samples=samples, runs=len(hashes), probe_calls=calls, outcome_classes=classes, runs_per_operation=per_scen,
                illdim_runs=ill_runs, illdim_classes=ill_classes, illdim_wrappers=ill_scen, io_write_fault_child_runs=fs_children,
                fault_kinds_fired={"ill-dimensioned call to a checked wrapper": ill_runs, "dirty heap fill / recycling": worlds - len(hashes),
                                   "write fails (ENOSPC) / fopen fails / fclose fails during mzd_to_png": fs_children},
                reach_probes=probes, probes_stuck_at_zero=stuck,
                runs_per_hour=int((len(hashes) + ill_runs) / max(wall, 1e-3) * 3600), seeds_per_hour=int((len(hashes) + ill_runs) / max(wall, 1e-3) * 3600),
                simulated_time="not applicable: no clock in this property",
                run_hash_digest=digest(hashes), variants=[v.describe() for v in vs], source_sha256=b.sha,
                real_components=["every library routine of the operation table"], simulated_components=["heap front end (ledger, fill, recycling)", "abort() with operand snapshot comparison at the moment of death"])
            write_evidence("C11", tier, seed, "exploration", cov,
                           ["the input-universal clause (no out-of-bounds / UB for every valid input) is sampled by these workloads under ASan/UBSan, not decided",
                            "header-slot balance in the default build is probed black-box at quiescence (64 headers fit the static pool, the 65th needs the heap)",
                            "UB that no sanitizer reports is out of reach"],
                           wall, len(mine_viol))
        print("%s %s: %d runs, %d worlds, %d probe calls, classes %s%s, %.1fs" % (prop, tier, len(hashes), worlds, calls, classes,
              (", illdim %s" % ill_classes) if prop == "C11" else "", wall))
        return rep.exit_code()
    except BuildError as e:
        print("HARNESS-ERROR: build failed: %s" % e)
        return 2
    finally:
        b.cleanup()
        if 'bf' in locals():
            bf.cleanup()


# ------------------------------------------------------------------ C16 (engine omp)
def build_omp(b):
    vs = [Variant("omp", openmp=1, mmc=1, mzdcache=0, flavour="mon", knobs=True),
          Variant("seq", flavour="plain", knobs=True),
          Variant("ompn", sse2=0, openmp=1, mmc=1, mzdcache=0, flavour="mon", knobs=True),
          Variant("seqn", sse2=0, flavour="plain", knobs=True)]
    b.build_variants(vs, required=("omp", "seq"))
    return b.build_engine("omp", ["gen.c", "eng/engutil.c", "eng/omp.c"], vs, "mon", core=("heap.c", "die.c", "fs.c", "sched.c")), vs


# ------------------------------------------------------------------ C12 (engine cfg)
CFG_VARIANTS = {
    "s_c_q": dict(sse2=1, mmc=1, mzdcache=1, openmp=0), "s_t_q": dict(sse2=1, mmc=0, mzdcache=0, openmp=0),
    "n_c_q": dict(sse2=0, mmc=1, mzdcache=1, openmp=0), "n_t_q": dict(sse2=0, mmc=0, mzdcache=0, openmp=0),
    "s_c_o": dict(sse2=1, mmc=1, mzdcache=0, openmp=1), "s_t_o": dict(sse2=1, mmc=0, mzdcache=0, openmp=1),
    "n_c_o": dict(sse2=0, mmc=1, mzdcache=0, openmp=1), "n_t_o": dict(sse2=0, mmc=0, mzdcache=0, openmp=1),
}


def build_cfg(b, names=None, const_triples=()):
    names = names or sorted(CFG_VARIANTS)
    vs = [Variant("ref", flavour="plain", knobs=False)] + [Variant(n, flavour="plain", knobs=True, **CFG_VARIANTS[n]) for n in names]
    # constant-size builds for the cross-validation: no block/header cache, so that allocation request sequences are a pure function of the code path
    vs += [Variant("k%d" % i, flavour="plain", knobs=False, mmc=0, mzdcache=0, l1=t[0], l2=t[1], l3=t[2]) for i, t in enumerate(const_triples)]
    b.build_variants(vs, required=("ref", "s_c_q"))
    return b.build_engine("cfg", ["gen.c", "eng/engutil.c", "eng/cfg.c"], vs, "plain", core=("heap.c", "die.c", "fs.c", "sched.c")), vs


def check_C12(tier, seed, replay=None):
    t0 = time.time()
    rep = Report("C12")
    b = Builder()
    try:
        import random
        if tier == "quick" and not replay:
            rr = random.Random(seed)
            names = ["s_c_q"] + rr.sample([n for n in sorted(CFG_VARIANTS) if n != "s_c_q"], 3)
            if not any(n.endswith("_o") for n in names):
                names[-1] = rr.choice(["s_c_o", "s_t_o", "n_c_o", "n_t_o"])
            if not any(n.startswith("n_") for n in names):
                names[1] = "n_c_q"
        else:
            names = sorted(CFG_VARIANTS)
        exe, vs = build_cfg(b, names)
        if replay:
            r = exec_prog(exe, replay)
            print(r.get("raw"))
            ok = r.get("cls", "") == "ok"
            if not ok:
                print("VIOLATION property=%s replay=%s" % (r.get("prop", "C12"), replay))
            return 0 if ok else 1
        total = 12 * (400 if tier == "quick" else 3000)
        outdir = os.path.join(b.scratch, "out")
        lines, crashes = fanout(exe, seed, total, tier, outdir, 90 if tier == "quick" else 1300)
        # cross-validation of the knob mechanism against builds with literal cache sizes (DESIGN 2.2)
        xlines = []
        ntrip = 3 if tier == "quick" else 12
        import random as _r
        rx = _r.Random(seed ^ 0x6b6e6f62)
        trips = []
        for _ in range(ntrip):
            l1 = rx.choice([4096, 8192, 16384, 32768, 65536]); l2 = max(l1, rx.choice([32768, 65536, 262144, 1310720, 2097152])); l3 = max(l2, rx.choice([65536, 131072, 262144, 1048576, 4194304]))
            trips.append((l1, l2, l3))
        bx = Builder()
        try:
            exex, vsx = build_cfg(bx, ["s_t_q"], trips)
            xlines, crx = fanout(exex, seed, 12 * (4 if tier == "quick" else 17), tier, os.path.join(bx.scratch, "out"), 60 if tier == "quick" else 600,
                                 extra=["xval", ",".join("%d:%d:%d" % t for t in trips)])
            crashes += crx
        finally:
            bx.cleanup()
        for cc in crashes:
            rep.harness("cfg worker %d exited with %d: %s" % (cc["worker"], cc["rc"], cc["tail"][-3:]))
        hashes, vl, classes, per_scen, T = [], [], {}, {}, {}
        xruns = 0
        for w, l in xlines:
            tag, d = kv(l)
            if tag == "R":
                xruns += 1
            elif tag == "T":
                for kk, v in d.items():
                    if kk.startswith("p.xval"):
                        T[kk] = T.get(kk, 0) + int(v)
            elif tag == "V":
                if d.get("class", "").startswith("HARNESS"):
                    rep.harness("knob mechanism disagrees with a constant build: %s" % l[:300])
                else:
                    rep.harness("cross-validation run reported %s (investigate with the constant build): %s" % (d.get("class"), l[:300]))
        if xlines and not T.get("p.xval_cache_sizes_changed_the_allocation_pattern", 0):
            rep.harness("cross-validation: the cache-size knobs never changed the library's allocation pattern - the knob mechanism may be inert")
        for w, l in lines:
            tag, d = kv(l)
            if tag == "R":
                hashes.append((int(d["idx"]), d["hash"]))
                classes[d["class"]] = classes.get(d["class"], 0) + 1
                per_scen[d["scen"]] = per_scen.get(d["scen"], 0) + 1
            elif tag == "T":
                for kk, v in d.items():
                    if not kk.startswith("p.xval"):
                        T[kk] = T.get(kk, 0) + int(v)
            elif tag == "V":
                vl.append(d)
        if not hashes:
            rep.harness("no run")
        probes = {k[2:]: v for k, v in T.items() if k.startswith("p.")}
        vuse = {k[2:]: v for k, v in T.items() if k.startswith("v.")}
        stuck = sorted(k for k, v in probes.items() if v == 0)
        if tier == "thorough" and stuck:
            rep.harness("reach probes stuck at zero: %s" % stuck)

        def sig(v, s):
            return "cfg|%s|%s|%s" % (v.get("scen"), v.get("class"), v.get("func", "-"))
        process_violations(rep, exe, vl, None, outdir, seed, sig,
                           keep_pred=lambda l: l.startswith("#") or l.startswith("family") or l.startswith("mat") or l.startswith("same"))
        samples = []
        per = (total + driver.NWORKERS - 1) // driver.NWORKERS
        for w in (0, 3, 9):
            p = os.path.join(outdir, "cur-%d.prog" % (w * per))
            if os.path.exists(p):
                samples.append(open(p).read())
        wall = time.time() - t0
        mine_viol = [v for v in rep.violations if v[0] == "C12"]
        cov = dict(
            evaluations=T.get("configs", 0), distinct_nontrivial=len(set(h for i, h in hashes)),
            rule="one evaluation = one operation family evaluated under one configuration (build variant, L1/L2/L3 triple, k, cutoff, route, team size for OpenMP variants) and compared with the reference "
                 "(shipped default configuration, literal cache sizes, k = 0, cutoff = 0); a run = one operand set under 12 (quick) / 24 (thorough) configurations, forked; distinct = distinct event-log hashes of runs",
            samples=samples, runs=len(hashes), outcome_classes=classes, runs_per_family=per_scen, configurations_per_variant=vuse,
            fault_kinds_fired={"cache sizes other than the shipped ones": T.get("configs", 0) - len(hashes), "no-SSE2 build": probes.get("no_sse2_variant", 0),
                               "OpenMP build on the simulated runtime (seeded team size 1..16)": probes.get("openmp_variant_on_simulated_runtime", 0)},
            reach_probes=probes, probes_stuck_at_zero=stuck,
            knob_cross_validation=dict(constant_builds=["%d:%d:%d" % t for t in trips], runs=xruns, pairs_compared=probes.get("xval_knob_vs_constant_pairs", 0),
                                       pairs_where_cache_sizes_changed_the_allocation_pattern=probes.get("xval_cache_sizes_changed_the_allocation_pattern", 0),
                                       what="knob build at (L1,L2,L3) vs a build with the same sizes as literal constants: outputs AND allocation request count/bytes must be identical"),
            runs_per_hour=int(len(hashes) / max(wall, 1e-3) * 3600), seeds_per_hour=int(len(hashes) / max(wall, 1e-3) * 3600),
            simulated_time="not applicable: no clock in this property",
            run_hash_digest=digest(hashes), variants=[v.describe() for v in vs], source_sha256=b.sha,
            real_components=["every build variant of the library, compiled from /repo's tree with its own generated m4ri_config.h"],
            simulated_components=["cache sizes as run-time knobs (generated m4ri_config.h)", "OpenMP runtime for the OpenMP variants", "heap front end"])
        write_evidence("C12", tier, seed, "exploration", cov,
                       ["purely differential against the shipped default configuration of the same tree: a wrong value computed identically by every configuration is silent",
                        "cache sizes are run-time variables in the knob builds (the three '#if X == 0' fix-ups in misc.h are skipped, as for any non-zero configured size)",
                        "quick tier links 4 of the 8 variants (seed-chosen, always with one no-SSE2 and one OpenMP variant); thorough links all 8",
                        "solutions X of rank-deficient systems are compared through A*X; PLE/PLUQ factors through the product reconstructed with the reference arithmetic"],
                       wall, len(mine_viol))
        print("C12 %s: %d runs, %d configurations, variants %s, classes %s, %.1fs" % (tier, len(hashes), T.get("configs", 0), vuse, classes, wall))
        return rep.exit_code()
    except BuildError as e:
        print("HARNESS-ERROR: build failed: %s" % e)
        return 2
    finally:
        b.cleanup()


# ------------------------------------------------------------------ C15 (engine thr)
def build_thr(b):
    vs = [Variant("ts", mmc=0, mzdcache=0, flavour="mon", knobs=True),
          Variant("def", flavour="mon", knobs=True)]
    b.build_variants(vs)
    return b.build_engine("thr", ["gen.c", "eng/engutil.c", "eng/thr.c"], vs, "mon", core=("heap.c", "die.c", "fs.c", "sched.c")), vs


def check_C15(tier, seed, replay=None):
    t0 = time.time()
    rep = Report("C15")
    b = Builder()
    try:
        exe, vs = build_thr(b)
        sym = Symbolizer(exe)
        if replay:
            r = exec_prog(exe, replay)
            print(r.get("raw"))
            ok = r.get("cls", "") == "ok"
            if not ok:
                print("VIOLATION property=%s replay=%s" % (r.get("prop", "C15"), replay))
            return 0 if ok else 1
        total = 2400 if tier == "quick" else 240000
        outdir = os.path.join(b.scratch, "out")
        lines, crashes = fanout(exe, seed, total, tier, outdir, 100 if tier == "quick" else 1400)
        ctl_lines, cr2 = fanout(exe, seed, 32, tier, os.path.join(b.scratch, "out_ctl"), 100, extra=["control"])
        for cc in crashes + cr2:
            rep.harness("thr worker %d exited with %d: %s" % (cc["worker"], cc["rc"], cc["tail"][-3:]))
        hashes, vl, classes, T = [], [], {}, {}
        thr_hist = [0] * 16
        for w, l in lines:
            tag, d = kv(l)
            if tag == "R":
                hashes.append((int(d["idx"]), d["hash"]))
                classes[d["class"]] = classes.get(d["class"], 0) + 1
            elif tag == "T":
                for kk, v in d.items():
                    if kk == "thr_hist":
                        for i, x in enumerate(v.split(",")):
                            thr_hist[i] += int(x)
                    else:
                        T[kk] = T.get(kk, 0) + int(v)
            elif tag == "V":
                vl.append(d)
        ctl_flagged = ctl_runs = 0
        ctl_unflagged = []
        for w, l in ctl_lines:
            tag, d = kv(l)
            if tag == "T":
                ctl_flagged += int(d.get("races_control", 0))
            elif tag == "R":
                ctl_runs += 1
            elif tag == "V":
                ctl_unflagged.append(l[:200])
        if ctl_flagged == 0 or len(ctl_unflagged) * 2 > max(ctl_runs, 1):
            rep.harness("control (default, non-thread-safe build driven by several threads): %d of %d control runs not flagged, %d conflicts reported in all: %s" % (len(ctl_unflagged), ctl_runs, ctl_flagged, ctl_unflagged[:1]))
        if not hashes:
            rep.harness("no run")
        if classes.get("SKIPPED", 0) > len(hashes) // 50:
            rep.harness("generator produced %d invalid programs" % classes["SKIPPED"])

        def sig(v, s):
            who = v.get("func", "-")
            if v.get("class") == "data_race":
                who = "+".join(sorted(set([sym.func(v.get("site", "0x0")), sym.func(v.get("site2", "0x0"))])))
            return "thr|threads|%s|%s" % (v.get("class"), who)
        for i, v in enumerate(vl[:12]):
            if v.get("class") in ("thread_result_differs_from_solo_run", "data_race"):
                base = exec_prog(exe, v["file"])
                ex = shrink_schedule(exe, v["file"], base, outdir, str(i))
                if ex:
                    v["file"] = ex
        process_violations(rep, exe, vl, None, outdir, seed, sig,
                           keep_pred=lambda l: l.startswith("#") or l.startswith("schedcfg") or l.startswith("lib ") or l.startswith("control"))
        samples = []
        per = (total + driver.NWORKERS - 1) // driver.NWORKERS
        for w in (0, 3, 9):
            p = os.path.join(outdir, "cur-%d.prog" % (w * per))
            if os.path.exists(p):
                txt = open(p).read().split("\n")
                samples.append("\n".join(txt[:30]) + ("\n... (%d lines)" % len(txt) if len(txt) > 30 else ""))
        wall = time.time() - t0
        mine_viol = [v for v in rep.violations if v[0] == "C15"]
        cov = dict(
            evaluations=len(hashes), distinct_nontrivial=T.get("interleavings", 0),
            rule="one evaluation = one forked run: every thread's call sequence solo, all threads without preemption, all threads under one seeded schedule (random-walk or PCT-style preemption "
                 "at memory accesses, function entries and heap calls; seeded creation order); distinct_nontrivial = distinct interleavings = distinct hashes of the (yield class, task) sequence at switch points (per worker, summed)",
            samples=samples, outcome_classes=classes, simulated_events=T.get("events", 0), context_switches=T.get("switches", 0), preemptions=T.get("preemptions", 0),
            simulated_threads=T.get("threads", 0), library_calls_by_threads=T.get("calls", 0), threads_per_run_histogram={str(i + 1): thr_hist[i] for i in range(16)},
            granules_read_by_several_threads_never_written=T.get("shared_readonly_granules", 0),
            fault_kinds_fired={"preemption (involuntary switch between two memory accesses)": T.get("preemptions", 0)},
            control=dict(runs=ctl_runs, conflicting_accesses_reported=ctl_flagged, what="default (non-thread-safe) build driven by 2-4 simulated threads: the monitor must report conflicts"),
            runs_per_hour=int(len(hashes) / max(wall, 1e-3) * 3600), seeds_per_hour=int(len(hashes) / max(wall, 1e-3) * 3600),
            simulated_time="logical time only: %d simulated events; the library has no clock" % T.get("events", 0),
            run_hash_digest=digest(hashes), variants=[v.describe() for v in vs], source_sha256=b.sha,
            real_components=["the thread-safe build of the library (every routine of the operation table except file I/O)"],
            simulated_components=["caller threads (ucontext tasks, one runs at a time)", "scheduler", "heap front end", "access monitor (vector clocks; ordering only from thread creation/join and free->malloc)"])
        write_evidence("C15", tier, seed, "exploration", cov,
                       ["mzd_randomize (libc random(), documented shared hidden state) and file I/O are excluded from the thread workloads",
                        "one task runs at a time: interleavings at instrumented-access granularity, no weak-memory effects",
                        "the allocator behind the seam is assumed thread-safe (as malloc is)"],
                       wall, len(mine_viol))
        print("C15 %s: %d runs, %d threads, %d calls, %d simulated events, %d switches, %d interleavings, classes %s, control races %d, %.1fs"
              % (tier, len(hashes), T.get("threads", 0), T.get("calls", 0), T.get("events", 0), T.get("switches", 0), T.get("interleavings", 0), classes, ctl_flagged, wall))
        return rep.exit_code()
    except BuildError as e:
        print("HARNESS-ERROR: build failed: %s" % e)
        return 2
    finally:
        b.cleanup()


def shrink_schedule(exe, path, base, outdir, tag):
    """Turn the seeded schedule of a violating program into explicit decisions and minimise them (ddmin over
    `sched` lines).  Returns the path of the explicit program if it reproduces, else None."""
    out = os.path.join(outdir, "explicit-%s.prog" % tag)
    try:
        subprocess.run([exe, "explicit", path, out], stdout=subprocess.PIPE, stderr=subprocess.STDOUT, timeout=900)
    except subprocess.TimeoutExpired:
        return None
    if not os.path.exists(out):
        return None
    r = exec_prog(exe, out)
    if not driver.same_violation(base, r, None):
        return None
    return out


def check_C16(tier, seed, replay=None):
    t0 = time.time()
    rep = Report("C16")
    b = Builder()
    try:
        exe, vs = build_omp(b)
        sym = Symbolizer(exe)
        if replay:
            r = exec_prog(exe, replay)
            print(r.get("raw"))
            ok = r.get("cls", "") == "ok"
            if not ok:
                print("VIOLATION property=%s replay=%s" % (r.get("prop", "C16"), replay))
            return 0 if ok else 1
        total = 18 * (240 if tier == "quick" else 2400)
        outdir = os.path.join(b.scratch, "out")
        lines, crashes = fanout(exe, seed, total, tier, outdir, 100 if tier == "quick" else 1400)
        ctl_lines, cr2 = fanout(exe, seed, 32, tier, os.path.join(b.scratch, "out_ctl"), 100, extra=["control"])
        for cc in crashes + cr2:
            rep.harness("omp worker %d exited with %d: %s" % (cc["worker"], cc["rc"], cc["tail"][-3:]))
        hashes, vl, classes, per_scen, T = [], [], {}, {}, {}
        team_hist = [0] * 16
        for w, l in lines:
            tag, d = kv(l)
            if tag == "R":
                hashes.append((int(d["idx"]), d["hash"]))
                classes[d["class"]] = classes.get(d["class"], 0) + 1
                per_scen[d["scen"]] = per_scen.get(d["scen"], 0) + 1
            elif tag == "T":
                for kk, v in d.items():
                    if kk == "team_hist":
                        for i, x in enumerate(v.split(",")):
                            team_hist[i] += int(x)
                    elif kk == "max_sections_one_thread":
                        T[kk] = max(T.get(kk, 0), int(v))
                    else:
                        T[kk] = T.get(kk, 0) + int(v)
            elif tag == "V":
                vl.append(d)
        ctl_flagged = ctl_runs = 0
        ctl_unflagged = []
        for w, l in ctl_lines:
            tag, d = kv(l)
            if tag == "T":
                ctl_flagged += int(d.get("races_control", 0))
            elif tag == "R":
                ctl_runs += 1
            elif tag == "V":
                ctl_unflagged.append(l[:200])
        # the control shows that the monitor CAN see missing mutual exclusion; which control runs happen to touch shared state together
        # depends on the library's caching policy, so a few unflagged runs are no evidence against the monitor
        if ctl_flagged == 0 or len(ctl_unflagged) * 2 > max(ctl_runs, 1):
            rep.harness("control (critical sections off in the simulated runtime): %d of %d control runs not flagged, %d conflicts reported in all: %s" % (len(ctl_unflagged), ctl_runs, ctl_flagged, ctl_unflagged[:1]))
        if not hashes:
            rep.harness("no run")
        probes = {k[2:]: v for k, v in T.items() if k.startswith("p.")}
        stuck = sorted(k for k, v in probes.items() if v == 0)
        if tier == "thorough" and stuck:
            rep.harness("reach probes stuck at zero: %s" % stuck)

        def sig(v, s):
            who = v.get("func", "-")
            if v.get("class") == "data_race":
                fs = sorted(set([sym.func(v.get("site", "0x0")), sym.func(v.get("site2", "0x0"))]))
                who = "+".join(fs)
            return "omp|%s|%s|%s" % (v.get("scen"), v.get("class"), who)
        # try to replace seeded schedules by minimised explicit ones
        for i, v in enumerate(vl[:12]):
            if v.get("class") in ("parallel_result_differs_from_sequential", "data_race"):
                base = exec_prog(exe, v["file"])
                ex = shrink_schedule(exe, v["file"], base, outdir, str(i))
                if ex:
                    v["file"] = ex
        process_violations(rep, exe, vl, None, outdir, seed, sig,
                           keep_pred=lambda l: l.startswith("#") or l.startswith("schedcfg") or l.startswith("op ") or l.startswith("control"))
        samples = []
        per = (total + driver.NWORKERS - 1) // driver.NWORKERS
        for w in (0, 3, 9):
            p = os.path.join(outdir, "cur-%d.prog" % (w * per))
            if os.path.exists(p):
                samples.append(open(p).read())
        wall = time.time() - t0
        mine_viol = [v for v in rep.violations if v[0] == "C16"]
        cov = dict(
            evaluations=len(hashes), distinct_nontrivial=T.get("interleavings", 0),
            rule="one evaluation = one forked run: sequential reference, the OpenMP build on a simulated team of n threads without preemption, and the same under one seeded schedule "
                 "(random-walk preemption at memory accesses / function entries / heap calls / runtime calls / critical sections, or PCT-style placed preemption points); "
                 "distinct_nontrivial = distinct interleavings = distinct hashes of the sequence (yield class, task switched to) over the switch points of a run (per worker, summed)",
            samples=samples, outcome_classes=classes, runs_per_operation=per_scen,
            simulated_events=T.get("events", 0), regions=T.get("regions", 0), nested_regions=T.get("nested", 0), sections_handed_out=T.get("sections", 0),
            max_sections_run_by_one_thread=T.get("max_sections_one_thread", 0), idle_threads=T.get("idle_threads", 0), critical_sections_entered=T.get("criticals", 0),
            context_switches=T.get("switches", 0), preemptions=T.get("preemptions", 0), team_size_histogram={str(i + 1): team_hist[i] for i in range(16)},
            fault_kinds_fired={"preemption (involuntary switch)": T.get("preemptions", 0), "team size other than the machine default": sum(team_hist) - team_hist[3],
                               "dynamic team size per region": probes.get("dynamic_team_size", 0), "nested region with a real team": probes.get("nested_region_with_real_team", 0)},
            control=dict(runs=ctl_runs, conflicting_accesses_reported=ctl_flagged, what="simulated runtime with critical sections turned into no-ops: the monitor must report conflicts"),
            reach_probes=probes, probes_stuck_at_zero=stuck,
            runs_per_hour=int(len(hashes) / max(wall, 1e-3) * 3600), seeds_per_hour=int(len(hashes) / max(wall, 1e-3) * 3600),
            simulated_time="logical time only: %d simulated events (one per instrumented memory access, function entry, heap call and runtime call); the library has no clock" % T.get("events", 0),
            run_hash_digest=digest(hashes), variants=[v.describe() for v in vs], source_sha256=b.sha,
            real_components=["the library compiled with -fopenmp by the real compiler (outlined region bodies, static schedule arithmetic)", "sequential reference build of the same tree"],
            simulated_components=["OpenMP runtime (GOMP_parallel, GOMP_parallel_sections, GOMP_sections_next, critical sections, omp_get_*)", "threads (ucontext tasks, one runs at a time)",
                                  "scheduler", "heap front end", "access monitor (vector clocks) on the compiler's -fsanitize=thread callbacks, no TSan runtime"])
        write_evidence("C16", tier, seed, "exploration", cov,
                       ["the simulated runtime is conforming but it is not libgomp: behaviour specific to libgomp's implementation is out of reach",
                        "sequential reference = same entry point of the sequential build; for mzd_(add)mul_mp the same code on the simulated runtime disabled (sequential semantics) and the sequential mzd_(add)mul",
                        "the monitor sees library code only (compiler-instrumented accesses plus memset/memcpy/memmove)"],
                       wall, len(mine_viol))
        print("C16 %s: %d runs, %d simulated events, %d regions, %d sections, %d switches, %d interleavings, classes %s, control races %d, %.1fs"
              % (tier, len(hashes), T.get("events", 0), T.get("regions", 0), T.get("sections", 0), T.get("switches", 0), T.get("interleavings", 0), classes, ctl_flagged, wall))
        return rep.exit_code()
    except BuildError as e:
        print("HARNESS-ERROR: build failed: %s" % e)
        return 2
    finally:
        b.cleanup()


def check_C10(tier, seed, replay=None):
    return check_hist("C10", tier, seed, replay)


def check_C11(tier, seed, replay=None):
    return check_hist("C11", tier, seed, replay)


CHECKS = {"C20": check_C20, "C18": check_C18, "C14": check_C14, "C10": check_C10, "C11": check_C11, "C16": check_C16, "C15": check_C15, "C12": check_C12}
