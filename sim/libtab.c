/* Per-variant vtable; compiled with -DVPFX=<prefix> -DVNAME="name" -DV_SSE2=.. etc. */
#include "ops.h"
#define CAT_(a, b) a##b
#define CAT(a, b) CAT_(a, b)
#define P(x) CAT(VPFX, x)
#define X(r, n, a) extern r P(n) a;
LIBFUNCS(X)
#if V_OPENMP
LIBFUNCS_OMP(X)
#endif
#undef X
#if V_MMC
extern mmb_t P(m4ri_mmc_cache)[];
#endif
const lib_t P(m4sim_lib) = {
#if V_MMC
  .mmc_cache = P(m4ri_mmc_cache),
#ifdef __M4RI_MMC_NBLOCKS
  .mmc_nblocks = __M4RI_MMC_NBLOCKS,
#endif
#endif
  .name = VNAME, .sse2 = V_SSE2, .mmc = V_MMC, .mzdcache = V_MZDCACHE, .openmp = V_OPENMP, .knobs = V_KNOBS,
#define X(r, n, a) .n = P(n),
  LIBFUNCS(X)
#if V_OPENMP
  LIBFUNCS_OMP(X)
#endif
#undef X
};
