#!/usr/bin/env python3
"""Runs checks against the property-PRESERVING changes in /verif/neutral/<id>/patch.diff (written by independent sub-agents; each keeps
the listed properties true while changing how the library does things).  Every check must stay silent (exit 0).
usage: neutralrun.py [id ...] [--checks C10,C11,...]"""
import os, subprocess, sys, glob, time, re
HERE = os.path.dirname(os.path.abspath(__file__))
VERIF = os.path.dirname(HERE)
DEFAULT = {"C10": ["C10", "C11", "C14", "C20"], "C14": ["C14", "C20", "C10", "C11", "C16"], "C15": ["C15", "C16", "C12", "C10"], "C12": ["C12", "C18", "C10", "C11"]}

def main():
    a = sys.argv[1:]
    checks = None
    if "--checks" in a:
        i = a.index("--checks"); checks = a[i + 1].split(","); del a[i:i + 2]
    ids = a or sorted(os.path.basename(d) for d in glob.glob(os.path.join(VERIF, "neutral", "*")))
    wt = "/tmp/wt_neut_%d" % os.getpid()
    subprocess.run(["git", "-C", "/repo", "worktree", "add", "-q", "--detach", wt, "HEAD"], check=True)
    bad = 0
    try:
        for nid in ids:
            d = os.path.join(VERIF, "neutral", nid, "patch.diff")
            subprocess.run(["git", "-C", wt, "checkout", "-q", "--", "."], check=True)
            subprocess.run(["git", "-C", wt, "clean", "-fdq"], check=True)
            if subprocess.run(["git", "-C", wt, "apply", d]).returncode != 0:
                print("%-8s PATCH-FAILED" % nid); bad += 1; continue
            for ck in (checks or DEFAULT.get(nid.split("_")[0], ["C10"])):
                t0 = time.time()
                p = subprocess.run([os.path.join(VERIF, "check"), ck, "--tier", "quick"], cwd=VERIF, env=dict(os.environ, M4SIM_REPO=wt), stdout=subprocess.PIPE, stderr=subprocess.STDOUT, text=True)
                viol = re.findall(r"^VIOLATION property=(\S+)", p.stdout, re.M)
                sig = re.findall(r"signature=(\S+)", p.stdout)
                harn = re.findall(r"^HARNESS-ERROR.*$", p.stdout, re.M)
                ok = p.returncode == 0 and not viol
                if not ok: bad += 1
                print("%-8s check=%s %-12s %6.1fs %s" % (nid, ck, "silent" if ok else ("ALARM" if viol else "exit=%d" % p.returncode), time.time() - t0, ",".join(sig[:3]) or (harn[0][:200] if harn else "")), flush=True)
            subprocess.run("rm -rf %s/replays/*" % VERIF, shell=True)
    finally:
        subprocess.run(["git", "-C", "/repo", "worktree", "remove", "--force", wt])
    return 1 if bad else 0

if __name__ == "__main__":
    sys.exit(main())
